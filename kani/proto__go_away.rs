//! Contracts for src/proto/go_away.rs — C15 "the last-stream identifier in the GOAWAY frames an
//! endpoint sends never increases", plus the close/idle decisions the connection derives from it.
//!
//! `GoAway` is a single-slot machine: `going_away` remembers the (id, reason) of the last GOAWAY that
//! was queued, `pending` is the one frame that still has to be buffered.  `pending` is written only
//! by `go_away` (and emptied only by `send_pending_go_away`), so the sequence of frames that reach the
//! codec is the sequence of frames that pass through `pending`.  The contracts below give
//!   * the step relation of every writer (what changed AND what did not),
//!   * the inductive invariant `wf` (I-pending: a pending frame carries the recorded id/reason;
//!     I-close: close_now => a GOAWAY was recorded; I-user: user initiated => close_now) preserved by
//!     every step from ANY state,
//!   * monotonicity: under I-goaway the recorded id never increases, and every frame placed in
//!     `pending` carries the recorded id  => ids handed to the codec are non-increasing.
//!
//! I-goaway (precondition of the writers, it is the `assert!` in `go_away`): a frame's id is <= the
//! recorded id.  It is established by the callers in proto/connection.rs (`DynConnection::go_away*`
//! use `streams.last_processed_id()` after `streams.send_go_away(id)` capped it, or StreamId::MAX
//! only when nothing was recorded) — `Connection::poll` is NOT verified here.
#![allow(dead_code, unused_imports)]
use super::*;

use crate::verif_kani::any_stream_id;
use bytes::Bytes;

/// (close_now, recorded (id, reason), is_user_initiated, pending (id, reason, debug ptr, debug len))
pub(crate) type GaSig = (bool, Option<(u32, u32)>, bool, Option<(u32, u32, usize, usize)>);

pub(crate) fn frame_sig(f: &frame::GoAway) -> (u32, u32, usize, usize) {
    (
        f.last_stream_id().into(),
        f.reason().into(),
        f.debug_data().as_ptr() as usize,
        f.debug_data().len(),
    )
}

impl GoAway {
    pub(crate) fn vk_sig(&self) -> GaSig {
        (
            self.close_now,
            self.going_away.as_ref().map(|g| (g.last_processed_id.into(), g.reason.into())),
            self.is_user_initiated,
            self.pending.as_ref().map(frame_sig),
        )
    }

    /// The inductive invariant (see the file comment).
    pub(crate) fn vk_wf(&self) -> bool {
        let (close_now, rec, user, pend) = self.vk_sig();
        let i_pending = match (pend, rec) {
            (None, _) => true,
            (Some((pid, pr, _, _)), Some((id, r))) => pid == id && pr == r,
            (Some(_), None) => false,
        };
        i_pending && (!close_now || rec.is_some()) && (!user || close_now)
    }

    /// Any GoAway value of a CONCRETE shape (which options are Some, whether the pending frame has
    /// debug data) with symbolic numbers and flags.  Codec harnesses use this: a symbolic shape makes
    /// the Bytes / BytesMut paths explode in CBMC.
    #[cfg(kani)]
    pub(crate) fn vk_any_shaped(recorded: bool, pending: Option<bool>) -> GoAway {
        let going_away = if recorded {
            Some(GoingAway { last_processed_id: any_stream_id(), reason: Reason::from(kani::any::<u32>()) })
        } else {
            None
        };
        let pending = match pending {
            None => None,
            Some(dbg) => Some(any_go_away_frame_shaped(dbg)),
        };
        GoAway { close_now: kani::any(), going_away, is_user_initiated: kani::any(), pending }
    }

    /// ANY GoAway value, including ones no execution reaches.
    #[cfg(kani)]
    pub(crate) fn vk_any_raw() -> GoAway {
        let pending = if kani::any() { Some(kani::any()) } else { None };
        GoAway::vk_any_shaped(kani::any(), pending)
    }

    /// ANY GoAway value satisfying the invariant `vk_wf`.
    #[cfg(kani)]
    pub(crate) fn vk_any() -> GoAway {
        let g = GoAway::vk_any_raw();
        kani::assume(g.vk_wf());
        g
    }
}

#[cfg(kani)]
pub(crate) fn any_go_away() -> GoAway {
    GoAway::vk_any()
}

/// Any GOAWAY frame: id <= 2^31-1, any 32-bit code, no or some debug data.
#[cfg(kani)]
pub(crate) fn any_go_away_frame() -> frame::GoAway {
    any_go_away_frame_shaped(kani::any())
}

#[cfg(kani)]
pub(crate) fn any_go_away_frame_shaped(debug_data: bool) -> frame::GoAway {
    let id = any_stream_id();
    let reason = Reason::from(kani::any::<u32>());
    if debug_data {
        frame::GoAway::with_debug_data(id, reason, Bytes::from_static(b"dbg"))
    } else {
        frame::GoAway::new(id, reason)
    }
}

const MAX_ID: u32 = u32::MAX >> 1;

#[cfg(kani)]
mod proofs {
    use super::*;
    use crate::proto::verif_kani::{be32, has_room, head9, mk_codec, snap, IoMode};
    use crate::verif_kani::noop_waker;

    /// I-goaway for frame `f` in state `g`.
    fn i_goaway(g: &GoAway, f: &frame::GoAway) -> bool {
        match g.vk_sig().1 {
            None => true,
            Some((id, _)) => u32::from(f.last_stream_id()) <= id,
        }
    }

    // @harness id=ga_new_and_observers props=C15,C08 kind=complete tier=quick fn=GoAway::new,GoAway::is_going_away,GoAway::is_user_initiated,GoAway::should_close_now,GoAway::should_close_on_idle,GoAway::going_away,GoingAway::reason
    #[kani::proof]
    fn ga_new_and_observers() {
        let n = GoAway::new();
        assert!(n.vk_sig() == (false, None, false, None), "ga.new.all_clear");
        assert!(n.vk_wf(), "ga.new.establishes_invariant");
        assert!(!n.is_going_away() && !n.should_close_now() && !n.should_close_on_idle(), "ga.new.neither_closing_nor_going_away");

        let g = GoAway::vk_any_raw();
        let (close_now, rec, user, pend) = g.vk_sig();
        assert!(g.is_going_away() == rec.is_some(), "ga.is_going_away.iff_recorded");
        assert!(g.is_user_initiated() == user, "ga.is_user_initiated.is_flag");
        // close now only once the GOAWAY has left the slot (it must reach the codec first)
        assert!(g.should_close_now() == (pend.is_none() && close_now), "ga.should_close_now.iff_flushed_and_close_now");
        // the first GOAWAY of a graceful shutdown (id 2^31-1) does not close on idle: the second,
        // with the real last-stream-id, does
        let idle = !close_now && matches!(rec, Some((id, _)) if id != MAX_ID);
        assert!(g.should_close_on_idle() == idle, "ga.should_close_on_idle.iff_final_graceful_goaway");
        assert!(!(g.should_close_on_idle() && g.should_close_now()), "ga.close.now_and_on_idle_exclusive");
        match g.going_away() {
            Some(ga) => assert!(rec == Some((ga.last_processed_id.into(), ga.reason().into())), "ga.going_away.is_record"),
            None => assert!(rec.is_none(), "ga.going_away.none_iff_not_recorded"),
        }
        assert!(g.vk_sig() == (close_now, rec, user, pend), "ga.observers.pure");
        kani::cover!(g.should_close_now(), "cover.close_now");
        kani::cover!(g.should_close_on_idle(), "cover.close_on_idle");
        kani::cover!(matches!(rec, Some((MAX_ID, _))) && !close_now && !g.should_close_on_idle(), "cover.graceful_first_goaway");
    }

    // @harness id=ga_go_away props=C15,C08 kind=complete tier=quick fn=GoAway::go_away
    #[kani::proof]
    fn ga_go_away() {
        let mut g = GoAway::vk_any_raw();
        let f = any_go_away_frame();
        let (close0, rec0, user0, _) = g.vk_sig();
        let wf0 = g.vk_wf();
        kani::assume(i_goaway(&g, &f)); // I-goaway, see file comment
        let fs = frame_sig(&f);
        g.go_away(f);
        let (close1, rec1, user1, pend1) = g.vk_sig();
        assert!(rec1 == Some((fs.0, fs.1)), "ga.go_away.records_frame_id_and_reason");
        assert!(pend1 == Some(fs), "ga.go_away.pending_is_exactly_the_frame");
        assert!(close1 == close0 && user1 == user0, "ga.go_away.flags_untouched");
        if let Some((id0, _)) = rec0 {
            assert!(rec1.unwrap().0 <= id0, "ga.go_away.recorded_id_never_increases");
        }
        if wf0 {
            assert!(g.vk_wf(), "ga.go_away.preserves_invariant");
        }
        kani::cover!(rec0.is_some() && fs.0 < rec0.unwrap().0, "cover.lower_id");
        kani::cover!(rec0.is_none() && fs.0 == MAX_ID, "cover.first_graceful");
        kani::cover!(wf0 && fs.3 == 3, "cover.debug_data");
    }

    // go_away_now and go_away_from_user (= set is_user_initiated, then go_away_now) in one harness.
    // @harness id=ga_go_away_now props=C15,C08 kind=complete tier=quick fn=GoAway::go_away_now,GoAway::go_away_from_user
    #[kani::proof]
    fn ga_go_away_now() {
        let from_user: bool = kani::any();
        let mut g = GoAway::vk_any_raw();
        let f = any_go_away_frame();
        let (_, rec0, user0, pend0) = g.vk_sig();
        let wf0 = g.vk_wf();
        kani::assume(i_goaway(&g, &f)); // I-goaway, see file comment
        let fs = frame_sig(&f);
        if from_user {
            g.go_away_from_user(f);
        } else {
            g.go_away_now(f);
        }
        let (close1, rec1, user1, pend1) = g.vk_sig();
        assert!(close1, "ga.go_away_now.sets_close_now");
        if from_user {
            assert!(user1, "ga.go_away_from_user.sets_user_initiated");
        } else {
            assert!(user1 == user0, "ga.go_away_now.user_flag_untouched");
        }
        // in every case the record now names this frame's id and reason
        assert!(rec1 == Some((fs.0, fs.1)), "ga.go_away_now.record_names_the_frame");
        if rec0 == Some((fs.0, fs.1)) {
            // the same GOAWAY is not sent twice: the slot is left alone (neither re-queued when it
            // was flushed already, nor replaced)
            assert!(pend1 == pend0, "ga.go_away_now.same_goaway_not_requeued");
        } else {
            assert!(pend1 == Some(fs), "ga.go_away_now.pending_is_exactly_the_frame");
        }
        if let Some((id0, _)) = rec0 {
            assert!(rec1.unwrap().0 <= id0, "ga.go_away_now.recorded_id_never_increases");
        }
        if wf0 {
            assert!(g.vk_wf(), "ga.go_away_now.preserves_invariant");
            // whatever sits in the slot carries the recorded (= smallest so far) id
            if let Some(p) = pend1 {
                assert!(p.0 == fs.0 && p.1 == fs.1, "ga.go_away_now.slot_carries_recorded_id");
            }
        }
        kani::cover!(rec0 == Some((fs.0, fs.1)) && pend0.is_none(), "cover.duplicate_after_flush");
        kani::cover!(rec0 == Some((fs.0, fs.1)) && pend0.is_some() && wf0, "cover.duplicate_while_pending");
        kani::cover!(matches!(rec0, Some((id, r)) if id == fs.0 && r != fs.1), "cover.same_id_other_reason");
        kani::cover!(matches!(rec0, Some((id, _)) if id > fs.0), "cover.lower_id");
        kani::cover!(rec0.is_none() && from_user, "cover.first_goaway_from_user");
        kani::cover!(rec0.is_none() && !from_user, "cover.first_goaway_from_library");
    }

    // History: any reachable state, then two writer calls (each go_away / go_away_now /
    // go_away_from_user) with ids that do not increase, the slot optionally flushed in between
    // (send_pending_go_away empties it, see ga_send_pending).  Every frame that enters the slot has an
    // id <= every id that entered it before  =>  the ids the codec sees are non-increasing (C15).
    // @harness id=ga_history_two_steps props=C15,C08 kind=bounded bound=2_writer_calls_from_any_invariant_state tier=quick fn=GoAway::go_away,GoAway::go_away_now,GoAway::go_away_from_user
    #[kani::proof]
    fn ga_history_two_steps() {
        let mut g = GoAway::vk_any();
        let rec0 = g.vk_sig().1;
        let f1 = any_go_away_frame();
        let f2 = any_go_away_frame();
        kani::assume(i_goaway(&g, &f1)); // I-goaway for the first call
        kani::assume(f2.last_stream_id() <= f1.last_stream_id()); // callers' ids never increase
        let (id1, id2) = (u32::from(f1.last_stream_id()), u32::from(f2.last_stream_id()));

        let k1: u8 = kani::any();
        match k1 % 3 {
            0 => g.go_away(f1),
            1 => g.go_away_now(f1),
            _ => g.go_away_from_user(f1),
        }
        let (_, rec1, _, pend1) = g.vk_sig();
        if kani::any() {
            g.pending = None; // flushed to the codec
        }
        let k2: u8 = kani::any();
        match k2 % 3 {
            0 => g.go_away(f2),
            1 => g.go_away_now(f2),
            _ => g.go_away_from_user(f2),
        }
        let (_, rec2, _, pend2) = g.vk_sig();

        // ids that entered the slot: (rec0 if something was sent before), pend1, pend2
        if let (Some((i0, _)), Some(p1)) = (rec0, pend1) {
            assert!(p1.0 <= i0, "ga.history.first_queued_id_le_earlier_sent_id");
        }
        if let (Some(p1), Some(p2)) = (pend1, pend2) {
            assert!(p2.0 <= p1.0, "ga.history.second_queued_id_le_first");
        }
        if let (Some((i0, _)), Some(p2)) = (rec0, pend2) {
            assert!(p2.0 <= i0, "ga.history.second_queued_id_le_earlier_sent_id");
        }
        assert!(rec1.map(|r| r.0) == Some(id1) && rec2.map(|r| r.0) == Some(id2), "ga.history.record_follows_calls");
        assert!(g.vk_wf(), "ga.history.invariant_holds_after_two_steps");
        kani::cover!(pend1.is_some() && pend2.is_some() && id2 < id1, "cover.two_frames_strictly_decreasing");
        kani::cover!(rec0.is_some() && pend1.is_none() && pend2.is_some(), "cover.duplicate_then_new_reason");
        kani::cover!(k1 % 3 == 0 && k2 % 3 == 1 && matches!(rec0, Some((MAX_ID, _))), "cover.graceful_then_abrupt");
    }

    // ---- send_pending_go_away over a real Codec (real FramedWrite/FramedRead/hpack state) on the
    // symbolic transport `SymIo`.  Three harnesses: the write buffer has room (23 of 1200 bytes used);
    // it has none (1190 used) and the flush that poll_ready attempts is accepted; the flush blocks or
    // fails.  Ids, reasons and flags are symbolic; the SHAPE (slot empty / frame without / with debug
    // data), the buffer fill and the transport's answer are enumerated by calling the body once per
    // case: a symbolic shape, fill or answer defeats CBMC's constant propagation through Bytes /
    // BytesMut / the flush loop (> 150 s), hence kind=bounded.

    /// The last `17 + dlen` buffered bytes are exactly one GOAWAY frame (RFC 9113 section 6.8: type 0x7,
    /// no flags, stream 0, R + last-stream-id, error code, debug data) with this id / reason.
    fn is_goaway_frame(fr: &[u8], id: u32, reason: u32, dlen: usize) -> bool {
        fr.len() == 17 + dlen
            && head9(fr) == (8 + dlen, 7, 0, 0)
            && be32(&fr[9..]) == id
            && be32(&fr[13..]) == reason
            && (dlen == 0 || (dlen == 3 && fr[17] == b'd' && fr[18] == b'b' && fr[19] == b'g'))
    }

    // @harness id=ga_send_pending_room props=C15,C07,C08 kind=bounded bound=write_buffer_fill_23_of_1200,debug_data_len_in_{0,3} tier=quick fn=GoAway::send_pending_go_away
    #[kani::proof]
    #[kani::unwind(5)]
    fn ga_send_pending_room() {
        const FILL: usize = 23;
        fn body(shape: Option<bool>, mode: IoMode) -> u8 {
            let mut g = GoAway::vk_any_shaped(kani::any(), shape);
            let wf0 = g.vk_wf();
            let s0 = g.vk_sig();
            let mut codec: Codec<_, bytes::Bytes> = mk_codec(mode, FILL);
            let c0 = snap(&codec);
            assert!(has_room(&codec), "ga.send.room.harness_prestate_has_room");
            let w = noop_waker();
            let mut cx = Context::from_waker(&w);

            let r = g.send_pending_go_away(&mut cx, &mut codec);

            let s1 = g.vk_sig();
            let c1 = snap(&codec);
            let branch = match s0.3 {
                Some((pid, preason, _, dlen)) => {
                    // codec ready: exactly one GOAWAY with the slot's id and reason is buffered
                    assert!(matches!(r, Poll::Ready(Some(Ok(x))) if u32::from(x) == preason), "ga.send.room.returns_frame_reason");
                    assert!(s1 == (s0.0, s0.1, s0.2, None), "ga.send.room.slot_emptied_rest_untouched");
                    assert!(c1.buffered == FILL + 17 + dlen, "ga.send.room.exactly_one_frame_appended");
                    let b = codec.vk_buffered();
                    assert!(is_goaway_frame(&b[FILL..], pid, preason, dlen), "ga.send.room.frame_is_goaway_with_slot_id_and_reason");
                    assert!(b[0] == 0xEE && b[FILL - 1] == 0xEE, "ga.send.room.earlier_frames_untouched");
                    assert!(c1.written == 0 && codec.vk_io().writes == 0, "ga.send.room.no_io");
                    assert!(c1.settings() == c0.settings() && !c1.has_next, "ga.send.room.codec_settings_untouched");
                    if wf0 {
                        // the id on the wire is the recorded one
                        assert!(s0.1 == Some((pid, preason)), "ga.send.room.wire_id_is_recorded_id");
                    }
                    1
                }
                None => {
                    assert!(s1 == s0 && c1 == c0, "ga.send.nothing_pending_changes_nothing");
                    let some = match (s0.0, s0.1) {
                        // flushed and close_now: report the recorded reason so the connection closes
                        (true, Some((_, reason))) => {
                            assert!(matches!(r, Poll::Ready(Some(Ok(x))) if u32::from(x) == reason), "ga.send.close_now_reports_recorded_reason");
                            true
                        }
                        _ => {
                            assert!(matches!(r, Poll::Ready(None)), "ga.send.otherwise_none");
                            false
                        }
                    };
                    if wf0 {
                        assert!(some == g.should_close_now(), "ga.send.some_iff_should_close_now");
                    }
                    if some { 5 } else { 6 }
                }
            };
            // dropping Bytes / io::Error / BytesMut costs CBMC minutes and is not under contract here
            std::mem::forget(r);
            std::mem::forget(g);
            std::mem::forget(codec);
            branch
        }
        let k: u8 = kani::any();
        let branch = match k % 3 {
            0 => body(None, IoMode::Pending),
            1 => body(Some(false), IoMode::Fail),
            _ => body(Some(true), IoMode::Pending),
        };
        kani::cover!(branch == 1 && k % 3 == 2, "cover.buffered_with_room_and_debug_data");
        kani::cover!(branch == 1 && k % 3 == 1, "cover.buffered_with_room");
        kani::cover!(branch == 5, "cover.close_now_after_flush");
        kani::cover!(branch == 6, "cover.idle");
    }

    // @harness id=ga_send_pending_flush props=C15,C07,C08 kind=bounded bound=write_buffer_fill_1190_of_1200,debug_data_len_in_{0,3} tier=quick fn=GoAway::send_pending_go_away
    #[kani::proof]
    #[kani::unwind(5)]
    fn ga_send_pending_flush() {
        const FILL: usize = 1190;
        fn body(dbg: bool) {
            let mut g = GoAway::vk_any_shaped(kani::any(), Some(dbg));
            let s0 = g.vk_sig();
            let mut codec: Codec<_, bytes::Bytes> = mk_codec(IoMode::Accept, FILL);
            let c0 = snap(&codec);
            assert!(!has_room(&codec), "ga.send.flush.harness_prestate_has_no_room");
            let w = noop_waker();
            let mut cx = Context::from_waker(&w);

            let r = g.send_pending_go_away(&mut cx, &mut codec);

            let s1 = g.vk_sig();
            let c1 = snap(&codec);
            let (pid, preason, _, dlen) = s0.3.unwrap();
            // the earlier bytes went to the transport, then exactly one GOAWAY was buffered
            assert!(matches!(r, Poll::Ready(Some(Ok(x))) if u32::from(x) == preason), "ga.send.flush.returns_frame_reason");
            assert!(s1 == (s0.0, s0.1, s0.2, None), "ga.send.flush.slot_emptied_rest_untouched");
            assert!(c1.written == FILL, "ga.send.flush.earlier_bytes_all_written");
            assert!(c1.buffered == 17 + dlen, "ga.send.flush.exactly_one_frame_buffered");
            assert!(is_goaway_frame(codec.vk_buffered(), pid, preason, dlen), "ga.send.flush.frame_is_goaway_with_slot_id_and_reason");
            assert!(c1.settings() == c0.settings() && !c1.has_next, "ga.send.flush.codec_settings_untouched");
            std::mem::forget(r);
            std::mem::forget(g);
            std::mem::forget(codec);
        }
        let dbg: bool = kani::any();
        if dbg {
            body(true);
        } else {
            body(false);
        }
        kani::cover!(dbg, "cover.buffered_after_flush_with_debug_data");
        kani::cover!(!dbg, "cover.buffered_after_flush");
    }

    // @harness id=ga_send_pending_blocked props=C15,C07,C08 kind=bounded bound=write_buffer_fill_1190_of_1200,debug_data_len_in_{0,3} tier=quick fn=GoAway::send_pending_go_away
    #[kani::proof]
    #[kani::unwind(5)]
    fn ga_send_pending_blocked() {
        const FILL: usize = 1190;
        fn body(dbg: bool, fail: bool) {
            let mut g = GoAway::vk_any_shaped(kani::any(), Some(dbg));
            let s0 = g.vk_sig();
            let mut codec: Codec<_, bytes::Bytes> = mk_codec(if fail { IoMode::Fail } else { IoMode::Pending }, FILL);
            let c0 = snap(&codec);
            let w = noop_waker();
            let mut cx = Context::from_waker(&w);

            let r = g.send_pending_go_away(&mut cx, &mut codec);

            let s1 = g.vk_sig();
            let c1 = snap(&codec);
            if fail {
                // transport error surfaces (C07: no hang), nothing buffered
                assert!(matches!(r, Poll::Ready(Some(Err(_)))), "ga.send.io_error_surfaces");
                assert!(c1 == c0, "ga.send.io_error_buffers_nothing");
            } else {
                // not ready: the SAME frame stays in the slot (not lost, not duplicated), nothing buffered
                assert!(r.is_pending(), "ga.send.not_ready_is_pending");
                assert!(s1 == s0, "ga.send.not_ready_keeps_same_frame_and_state");
                assert!(c1 == c0, "ga.send.not_ready_buffers_nothing");
            }
            std::mem::forget(r);
            std::mem::forget(g);
            std::mem::forget(codec);
        }
        let k: u8 = kani::any();
        match k % 4 {
            0 => body(false, false),
            1 => body(true, false),
            2 => body(false, true),
            _ => body(true, true),
        }
        kani::cover!(k % 4 == 1, "cover.pending_kept_with_debug_data");
        kani::cover!(k % 4 == 2, "cover.io_error");
    }
}
