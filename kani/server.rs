//! Contracts for src/server.rs — `server::Peer::convert_poll_message`, the last gate between a decoded request field
//! section and the application (C13).
//!
//! RFC 9113 §8.3.1: "All HTTP/2 requests MUST include exactly one valid value for the ":method", ":scheme", and ":path"
//! pseudo-header fields, unless they are CONNECT requests (Section 8.5). An HTTP request that omits mandatory
//! pseudo-header fields is malformed."  §8.3: response pseudo-fields (":status") MUST NOT appear in requests.
//! §8.5: a (plain) CONNECT request omits ":scheme" and ":path" and MUST include ":authority".
#![allow(dead_code, unused_imports)]
use super::*;

#[cfg(kani)]
mod proofs {
    use super::*;
    use crate::hpack::BytesStr;
    use crate::verif_kani::sig;
    use http::{Method, StatusCode};

    // Every combination of presence of :method (GET or CONNECT when present) :scheme :authority :path :status, values
    // fixed and valid ("https", "a", "/"), no :protocol, empty regular field section.
    //   Ok(request)  ==>  the combination is one RFC 9113 allows;
    //   allowed      ==>  Ok (legal traffic is not rejected);   otherwise stream error PROTOCOL_ERROR.
    fn server_convert_poll_message_case(method: u8, has_scheme: bool, has_authority: bool, has_path: bool, has_status: bool) {
        let pseudo = Pseudo {
            method: match method { 0 => None, 1 => Some(Method::GET), _ => Some(Method::CONNECT) },
            scheme: if has_scheme { Some(BytesStr::from_static("https")) } else { None },
            authority: if has_authority { Some(BytesStr::from_static("a")) } else { None },
            path: if has_path { Some(BytesStr::from_static("/")) } else { None },
            protocol: None,
            status: if has_status { Some(StatusCode::OK) } else { None },
        };
        let id = StreamId::from(1);
        let r = <Peer as proto::Peer>::convert_poll_message(pseudo, HeaderMap::new(), id);
        // RFC 9113 8.3.1 / 8.5 (no extended CONNECT here)
        let allowed = !has_status && match method {
            0 => false,
            1 => has_scheme && has_path,
            _ => !has_scheme && !has_path && has_authority,
        };
        match &r {
            Ok(_) => {
                assert!(method != 0, "server.convert_poll_message.request_without_method_is_not_delivered");
                assert!(!has_status, "server.convert_poll_message.request_with_status_is_not_delivered");
                assert!(method != 1 || has_scheme, "server.convert_poll_message.request_without_scheme_is_not_delivered");
                assert!(method != 1 || has_path, "server.convert_poll_message.request_without_path_is_not_delivered");
                assert!(method != 2 || (!has_scheme && !has_path), "server.convert_poll_message.connect_with_scheme_or_path_is_not_delivered");
                assert!(method != 2 || has_authority, "server.convert_poll_message.connect_without_authority_is_not_delivered");
            }
            Err(e) => {
                assert!(!allowed, "server.convert_poll_message.well_formed_request_is_delivered");
                assert!(matches!(sig(e), (0, 1, 1, 1, _)), "server.convert_poll_message.malformed_is_stream_protocol_error");
            }
        }
        std::mem::forget(r);
    }

    // Symbolic presence flags make CBMC explore the http::Uri parsers on every path (timeout at 900 s); the shapes are
    // therefore ENUMERATED concretely: bounded stand-in over the listed shapes.
    // @harness id=server_convert_poll_message_shapes props=C13 kind=bounded bound=shapes:{GET_full,GET_no_path,GET_no_path_no_authority,GET_no_authority,GET_no_scheme,GET_with_status,no_method,CONNECT_authority_only,CONNECT_with_path} tier=quick timeout=900 fn=proto::Peer@Peer::convert_poll_message
    #[kani::proof]
    #[kani::unwind(8)]
    fn server_convert_poll_message_shapes() {
        //                               method scheme authority path  status
        server_convert_poll_message_case(1, true, true, true, false); // GET, complete
        server_convert_poll_message_case(1, true, true, false, false); // GET without :path
        server_convert_poll_message_case(1, true, false, false, false); // GET without :path and without :authority
        server_convert_poll_message_case(1, true, false, true, false); // GET without :authority (legal)
        server_convert_poll_message_case(1, false, true, true, false); // GET without :scheme
        server_convert_poll_message_case(1, true, true, true, true); // GET with :status
        server_convert_poll_message_case(0, true, true, true, false); // no :method
        server_convert_poll_message_case(2, false, true, false, false); // CONNECT, authority only
        server_convert_poll_message_case(2, false, true, true, false); // CONNECT with :path
        kani::cover!(true, "cover.reached");
    }
}
