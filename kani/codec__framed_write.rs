//! Harness-side helpers for src/codec/framed_write.rs, and the contract of `Encoder::has_capacity` (C04: a header block
//! is contiguous on the wire — no other frame is accepted while a CONTINUATION is parked).
//!
//! The hook module is private to `codec::framed_write`, so everything other harness files need is
//! exposed as inherent `vk_*` methods (inherent `pub(crate)` items are reachable crate-wide).
//! Observers only read state; `vk_set_write_buf` replaces the 16 KiB write buffer by a smaller one so
//! that "no capacity" is a cheap, reachable pre-state (the thresholds `chain_threshold` /
//! `min_buffer_capacity` stay exactly what the real `FramedWrite::new` computed).
#![allow(dead_code, unused_imports)]
use super::*;

// ---- connlevel helpers begin
impl<T, B> FramedWrite<T, B> {
    /// The bytes that were encoded and are not yet handed to the I/O object.
    pub(crate) fn vk_buffered(&self) -> &[u8] {
        let pos = self.encoder.buf.position() as usize;
        &self.encoder.buf.get_ref()[pos..]
    }

    pub(crate) fn vk_buffered_len(&self) -> usize {
        self.encoder.buf.get_ref().len() - self.encoder.buf.position() as usize
    }

    /// A DATA payload / CONTINUATION is parked behind the buffer.
    pub(crate) fn vk_has_next(&self) -> bool {
        self.encoder.next.is_some()
    }

    pub(crate) fn vk_min_buffer_capacity(&self) -> usize {
        self.encoder.min_buffer_capacity
    }

    pub(crate) fn vk_hpack(&self) -> &hpack::Encoder {
        &self.encoder.hpack
    }

    pub(crate) fn vk_io(&self) -> &T {
        &self.inner
    }

    pub(crate) fn vk_io_mut(&mut self) -> &mut T {
        &mut self.inner
    }

    pub(crate) fn vk_final_flush_done(&self) -> bool {
        self.final_flush_done
    }

    /// Replace the write buffer: capacity `cap`, of which `fill` bytes are occupied by `byte`
    /// (standing for frames buffered earlier and not yet flushed).
    pub(crate) fn vk_set_write_buf(&mut self, cap: usize, fill: usize, byte: u8) {
        assert!(fill <= cap);
        let mut b = BytesMut::with_capacity(cap);
        b.resize(fill, byte);
        self.encoder.buf = Cursor::new(b);
    }
}
// ---- connlevel helpers end


#[cfg(kani)]
mod proofs {
    use super::*;
    use bytes::Bytes;

    // C04 (RFC 9113 §4.3: the frames of a field block are contiguous) / C12: `buffer()` may only be called when
    // `has_capacity()` (it asserts it; Connection/Codec callers go through poll_ready, which returns Pending otherwise).
    // Contract, taken from the property: has_capacity() is true ONLY IF nothing is parked in `next` — neither the rest
    // of a header block (Next::Continuation) nor a DATA payload (Next::Data) — and exactly if additionally the free
    // buffer space reaches the threshold.  `next` is enumerated over all three shapes, the threshold is ANY usize, the
    // fill level any 0..=64; the buffer capacity is the concrete 64 (capacity and len only enter through one
    // subtraction and one comparison).
    // @harness id=fw_has_capacity_contract props=C04,C12 kind=complete tier=quick fn=Encoder::has_capacity
    #[kani::proof]
    fn fw_has_capacity_contract() {
        let fill: usize = kani::any();
        kani::assume(fill <= 64);
        let min: usize = kani::any();
        let mut shape = 0;
        while shape < 3 {
            let mut b = BytesMut::with_capacity(64);
            unsafe { b.set_len(fill) };
            let free = b.capacity() - b.len();
            let next: Option<Next<Bytes>> = match shape {
                0 => None,
                1 => Some(Next::Data(frame::Data::new(frame::StreamId::from(1), Bytes::new()))),
                _ => Some(Next::Continuation(frame::Continuation::vk_new(frame::StreamId::from(1), 3))),
            };
            let enc: Encoder<Bytes> = Encoder {
                hpack: hpack::Encoder::default(),
                buf: Cursor::new(b),
                next,
                last_data_frame: None,
                max_frame_size: frame::DEFAULT_MAX_FRAME_SIZE,
                chain_threshold: CHAIN_THRESHOLD,
                min_buffer_capacity: min,
            };
            let r = enc.has_capacity();
            assert!(!r || enc.next.is_none(), "framed_write.has_capacity.never_while_a_continuation_or_data_payload_is_parked");
            assert!(r == (shape == 0 && free >= min), "framed_write.has_capacity.exactly_when_nothing_parked_and_room_for_a_frame");
            std::mem::forget(enc);
            shape += 1;
        }
        kani::cover!(fill == 64 && min == 0, "cover.full_buffer_zero_threshold");
    }

    // C12 (nothing that was accepted for sending is lost on close) / C07: `shutdown` hands the connection's last bytes
    // (typically the GOAWAY) to the transport BEFORE shutting the transport down, also when the first attempt is
    // interrupted by a full socket: a `Pending` flush must leave "final flush done" unset, so that the next call
    // flushes again instead of going straight to poll_shutdown with bytes still buffered.
    // Pre-state: 23 bytes of earlier frames buffered, nothing parked.  Transport: Pending then Accept / Accept / Fail.
    // @harness id=fw_shutdown_flushes_first props=C12,C07,C15 kind=bounded bound=write_buffer_fill_23_of_1200 tier=quick timeout=400 fn=FramedWrite::shutdown,FramedWrite::flush
    #[kani::proof]
    #[kani::unwind(6)]
    fn fw_shutdown_flushes_first() {
        use crate::proto::verif_kani::{IoMode, SymIo};
        const FILL: usize = 23;
        let w = crate::verif_kani::noop_waker();
        let mut cx = Context::from_waker(&w);
        let k: u8 = kani::any();
        let mode = match k % 3 { 0 => IoMode::Accept, 1 => IoMode::Pending, _ => IoMode::Fail };
        let mut fw: FramedWrite<SymIo, Bytes> = FramedWrite::new(SymIo::new(mode));
        fw.vk_set_write_buf(1200, FILL, 0xEE);
        let r1 = fw.shutdown(&mut cx);
        match mode {
            IoMode::Accept => {
                assert!(matches!(r1, Poll::Ready(Ok(()))), "framed_write.shutdown.ready_when_transport_accepts");
                assert!(fw.vk_io().shutdowns == 1 && fw.vk_io().written_at_shutdown == FILL && fw.vk_buffered_len() == 0,
                    "framed_write.shutdown.everything_buffered_is_written_before_the_transport_is_shut_down");
            }
            IoMode::Pending => {
                assert!(r1.is_pending(), "framed_write.shutdown.pending_while_the_flush_is_blocked");
                assert!(fw.vk_io().shutdowns == 0 && fw.vk_buffered_len() == FILL, "framed_write.shutdown.blocked_flush_neither_shuts_down_nor_drops_bytes");
                assert!(!fw.vk_final_flush_done(), "framed_write.shutdown.blocked_flush_is_not_recorded_as_done");
                // the socket drains; the connection is polled again
                fw.vk_io_mut().mode = IoMode::Accept;
                let r2 = fw.shutdown(&mut cx);
                assert!(matches!(r2, Poll::Ready(Ok(()))), "framed_write.shutdown.second_call_completes");
                assert!(fw.vk_io().shutdowns == 1 && fw.vk_io().written_at_shutdown == FILL && fw.vk_buffered_len() == 0,
                    "framed_write.shutdown.retry_writes_the_buffered_bytes_before_shutting_down");
                std::mem::forget(r2);
            }
            IoMode::Fail => {
                assert!(matches!(r1, Poll::Ready(Err(_))), "framed_write.shutdown.io_error_surfaces");
                assert!(fw.vk_io().shutdowns == 0, "framed_write.shutdown.no_shutdown_after_a_failed_flush");
            }
        }
        kani::cover!(k % 3 == 1, "cover.blocked_then_drained");
        kani::cover!(k % 3 == 0, "cover.accepted");
        std::mem::forget(r1);
        std::mem::forget(fw);
    }
}
