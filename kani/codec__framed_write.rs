//! Harness-side HELPERS for src/codec/framed_write.rs (no contracts on FramedWrite itself yet).
//!
//! The hook module is private to `codec::framed_write`, so everything other harness files need is
//! exposed as inherent `vk_*` methods (inherent `pub(crate)` items are reachable crate-wide).
//! Observers only read state; `vk_set_write_buf` replaces the 16 KiB write buffer by a smaller one so
//! that "no capacity" is a cheap, reachable pre-state (the thresholds `chain_threshold` /
//! `min_buffer_capacity` stay exactly what the real `FramedWrite::new` computed).
#![allow(dead_code, unused_imports)]
use super::*;

// ---- connlevel helpers begin
impl<T, B> FramedWrite<T, B> {
    /// The bytes that were encoded and are not yet handed to the I/O object.
    pub(crate) fn vk_buffered(&self) -> &[u8] {
        let pos = self.encoder.buf.position() as usize;
        &self.encoder.buf.get_ref()[pos..]
    }

    pub(crate) fn vk_buffered_len(&self) -> usize {
        self.encoder.buf.get_ref().len() - self.encoder.buf.position() as usize
    }

    /// A DATA payload / CONTINUATION is parked behind the buffer.
    pub(crate) fn vk_has_next(&self) -> bool {
        self.encoder.next.is_some()
    }

    pub(crate) fn vk_min_buffer_capacity(&self) -> usize {
        self.encoder.min_buffer_capacity
    }

    pub(crate) fn vk_hpack(&self) -> &hpack::Encoder {
        &self.encoder.hpack
    }

    pub(crate) fn vk_io(&self) -> &T {
        &self.inner
    }

    /// Replace the write buffer: capacity `cap`, of which `fill` bytes are occupied by `byte`
    /// (standing for frames buffered earlier and not yet flushed).
    pub(crate) fn vk_set_write_buf(&mut self, cap: usize, fill: usize, byte: u8) {
        assert!(fill <= cap);
        let mut b = BytesMut::with_capacity(cap);
        b.resize(fill, byte);
        self.encoder.buf = Cursor::new(b);
    }
}
// ---- connlevel helpers end
