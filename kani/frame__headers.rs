//! Contracts for src/frame/headers.rs.
//!
//! Part 1 (this block): `parse_u64`, the content-length parser — property C13 (content-length
//! arithmetic).  Oracle: RFC 9110 §8.6 `Content-Length = 1*DIGIT`, value = the decimal number.
//! Self-contained: everything of this part is prefixed `pu64_` / lives in `mod proofs` (harness ids `frame_parse_u64*`).
#![allow(dead_code, unused_imports)]
use super::*;

/// every one of the first `n` octets is an ASCII digit
pub(crate) fn pu64_all_digits(s: &[u8], n: usize) -> bool {
    let mut i = 0;
    while i < n {
        if !(b'0' <= s[i] && s[i] <= b'9') {
            return false;
        }
        i += 1;
    }
    true
}

/// Decimal value (Horner) of the digit string `s[..n]`, `n <= 19`: 19 digits cannot overflow u64
/// (10^19 - 1 < 2^64; Kani checks the arithmetic of this function too).
pub(crate) fn pu64_decimal(s: &[u8], n: usize) -> u64 {
    let mut v: u64 = 0;
    let mut i = 0;
    while i < n {
        v = v * 10 + (s[i] - b'0') as u64;
        i += 1;
    }
    v
}

/// A CONTINUATION frame carrying `n` octets of (arbitrary, zeroed) header-block fragment — what `Headers::encode`
/// returns when the block did not fit; used by kani/codec__framed_write.rs to build "a header block is unfinished".
/// (inherent fn: module `frame::headers` is private, `frame::Continuation` is re-exported.)
impl Continuation {
    pub(crate) fn vk_new(id: StreamId, n: usize) -> Continuation {
        let mut hpack = BytesMut::with_capacity(n);
        hpack.resize(n, 0);
        Continuation { stream_id: id, header_block: EncodingHeaderBlock { hpack } }
    }
}

#[cfg(kani)]
mod proofs {
    use super::*;

    // ---- Part 2: HeaderBlock::load — ordering of pseudo-header fields across the frames of one field block (C13).
    // RFC 9113 8.3: "All pseudo-header fields MUST appear in a field block before all regular field lines. Any request or
    // response that contains a pseudo-header field that appears in a field block after a regular field line MUST be
    // treated as malformed."  A field block may arrive as HEADERS + CONTINUATION fragments decoded by separate `load`
    // calls on the same HeaderBlock, so "a regular field was already seen" must survive from one call to the next.
    //
    // The HPACK decoding itself (hpack::Decoder::decode; Kani does not finish symbolic execution of it even for one octet)
    // is replaced by a stub that hands the REAL closure of `load` a fixed short list of decoded fields; everything `load`
    // does with them — the `reg` / `malformed` bookkeeping, the macros set_pseudo!/check_size!, the size accounting — is
    // the real code.  Bounded: the listed field sequences.
    fn stub_decode_emits_method<F>(_d: &mut hpack::Decoder, _src: &mut Cursor<&mut BytesMut>, mut f: F) -> Result<(), hpack::DecoderError>
    where
        F: FnMut(hpack::Header) -> ControlFlow<()>,
    {
        let _ = f(hpack::Header::Method(Method::GET));
        Ok(())
    }

    fn stub_decode_emits_field_then_status<F>(_d: &mut hpack::Decoder, _src: &mut Cursor<&mut BytesMut>, mut f: F) -> Result<(), hpack::DecoderError>
    where
        F: FnMut(hpack::Header) -> ControlFlow<()>,
    {
        let _ = f(hpack::Header::Field { name: header::ACCEPT, value: HeaderValue::from_static("*/*") });
        let _ = f(hpack::Header::Status(StatusCode::OK));
        Ok(())
    }

    // Pre-state: an earlier fragment delivered one regular field.  This fragment: `:method GET`.
    // @harness id=hb_load_pseudo_after_regular_field_of_earlier_fragment props=C13 kind=bounded bound=one_regular_field_earlier,_this_fragment=[:method] tier=quick timeout=400 fn=HeaderBlock::load
    #[kani::proof]
    #[kani::unwind(12)]
    #[kani::stub(hpack::Decoder::decode, stub_decode_emits_method)]
    fn hb_load_pseudo_after_regular_field_of_earlier_fragment() {
        let mut fields = HeaderMap::new();
        fields.insert(header::ACCEPT, HeaderValue::from_static("*/*"));
        let mut hb = HeaderBlock { field_size: calculate_headermap_size(&fields), fields, is_over_size: false, pseudo: Pseudo::default() };
        let mut dec = hpack::Decoder::new(4096);
        let mut src = BytesMut::new();
        let r = hb.load(&mut src, 16 << 10, &mut dec);
        assert!(matches!(r, Err(Error::MalformedMessage)), "headers.load.pseudo_header_after_regular_field_of_an_earlier_fragment_is_malformed");
        assert!(hb.pseudo == Pseudo::default(), "headers.load.late_pseudo_header_is_not_recorded");
        assert!(hb.fields.len() == 1, "headers.load.late_pseudo_header_leaves_fields_alone");
        kani::cover!(true, "cover.reached");
        std::mem::forget(r);
        std::mem::forget(hb);
        std::mem::forget(dec);
    }

    // Same rule inside ONE fragment: regular field, then `:status 200`.
    // @harness id=hb_load_pseudo_after_regular_field_same_fragment props=C13 kind=bounded bound=fragment=[accept,:status] tier=attempt timeout=2400 fn=HeaderBlock::load
    #[kani::proof]
    #[kani::unwind(12)]
    #[kani::stub(hpack::Decoder::decode, stub_decode_emits_field_then_status)]
    fn hb_load_pseudo_after_regular_field_same_fragment() {
        let mut hb = HeaderBlock { field_size: 0, fields: HeaderMap::new(), is_over_size: false, pseudo: Pseudo::default() };
        let mut dec = hpack::Decoder::new(4096);
        let mut src = BytesMut::new();
        let r = hb.load(&mut src, 16 << 10, &mut dec);
        assert!(matches!(r, Err(Error::MalformedMessage)), "headers.load.pseudo_header_after_regular_field_is_malformed");
        assert!(hb.pseudo.status.is_none(), "headers.load.late_status_is_not_recorded");
        kani::cover!(true, "cover.reached");
        std::mem::forget(r);
        std::mem::forget(hb);
        std::mem::forget(dec);
    }

    // Twin (non-vacuity): the same pseudo-header as the FIRST field of a block is accepted and recorded.
    // @harness id=hb_load_pseudo_first props=C13 kind=bounded bound=fragment=[:method] tier=quick timeout=400 fn=HeaderBlock::load
    #[kani::proof]
    #[kani::unwind(12)]
    #[kani::stub(hpack::Decoder::decode, stub_decode_emits_method)]
    fn hb_load_pseudo_first() {
        let mut hb = HeaderBlock { field_size: 0, fields: HeaderMap::new(), is_over_size: false, pseudo: Pseudo::default() };
        let mut dec = hpack::Decoder::new(4096);
        let mut src = BytesMut::new();
        let r = hb.load(&mut src, 16 << 10, &mut dec);
        assert!(r.is_ok(), "headers.load.pseudo_header_first_is_accepted");
        assert!(hb.pseudo.method == Some(Method::GET) && hb.fields.is_empty(), "headers.load.pseudo_header_first_is_recorded");
        kani::cover!(true, "cover.reached");
        std::mem::forget(r);
        std::mem::forget(hb);
        std::mem::forget(dec);
    }

    // ---- Part 3: HEADERS / PUSH_PROMISE / CONTINUATION encoding against the frame-size budget (C12, C04).
    // RFC 9113 4.2: a frame's payload must not exceed the peer's SETTINGS_MAX_FRAME_SIZE.  FramedWrite hands the encoders
    // a `Limit` of max_frame_size + 9 octets; EVERYTHING the frame writes — head, the 4-octet promised id of a
    // PUSH_PROMISE, the header-block fragment — must be charged against it, the 24-bit length field must equal the
    // payload actually written, what does not fit must come back as a CONTINUATION carrying exactly the rest, and
    // END_HEADERS is set iff nothing is left.
    // The HPACK encoding of the field section (HeaderBlock::into_encoding -> hpack::Encoder::encode, out of Kani's reach)
    // is replaced by a block of 0xAB octets whose length is fixed per case.  Symbolic lengths make CBMC run out of memory in
    // BytesMut::split_to/put_slice (measured, 12 GB), so the (block length, budget) pairs are ENUMERATED around the
    // boundary: empty block, one octet below the budget, exact fit, one octet over, far over — for each of the three frame
    // kinds; the budget is 30 octets (head 9 + 21).  Bounded stand-in, not a proof for all lengths.
    // Only the CONTINUATION kind is registered: the HEADERS / PUSH_PROMISE kinds need HeaderBlock::into_encoding stubbed,
    // and with the stub CBMC reports spurious `__rust_dealloc` failures inside BytesMut (not reproducible natively) —
    // an unsound alarm, so those two harnesses were removed rather than kept red (DESIGN.md 5b).
    static mut VK_BLOCK_LEN: usize = 0;

    fn stub_into_encoding(hb: HeaderBlock, _encoder: &mut hpack::Encoder) -> EncodingHeaderBlock {
        std::mem::forget(hb);
        let n = unsafe { VK_BLOCK_LEN };
        let mut hpack = BytesMut::with_capacity(64);
        hpack.resize(n, 0xAB);
        EncodingHeaderBlock { hpack }
    }

    fn hdr_encode_frame_size_case(kind: u8, n: usize, limit: usize) {
        unsafe { VK_BLOCK_LEN = n };
        let mut buf = BytesMut::with_capacity(128);
        let mut enc = hpack::Encoder::default();
        let sid = StreamId::from(5);
        let (prefix, cont) = {
            let mut dst = (&mut buf).limit(limit);
            match kind {
                0 => {
                    let f = Headers::new(sid, Pseudo::default(), HeaderMap::new());
                    (0usize, f.encode(&mut enc, &mut dst))
                }
                1 => {
                    let f = PushPromise::new(sid, StreamId::from(8), Pseudo::default(), HeaderMap::new());
                    (4usize, f.encode(&mut enc, &mut dst))
                }
                _ => {
                    let f = Continuation::vk_new(sid, n);
                    (0usize, f.encode(&mut dst))
                }
            }
        };
        let total = buf.len();
        assert!(total >= 9 + prefix && total <= limit, "headers.encode.frame_stays_within_the_budget_head_and_prefix_included");
        let len_field = ((buf[0] as usize) << 16) | ((buf[1] as usize) << 8) | buf[2] as usize;
        assert!(len_field == total - 9, "headers.encode.length_field_equals_payload_written");
        assert!(buf[3] == match kind { 0 => 1, 1 => 5, _ => 9 }, "headers.encode.frame_type");
        assert!(((buf[4] & END_HEADERS) != 0) == cont.is_none(), "headers.encode.end_headers_iff_nothing_left");
        if kind == 1 {
            assert!(buf[9] == 0 && buf[10] == 0 && buf[11] == 0 && buf[12] == 8, "headers.encode.promised_id_leads_the_payload");
        }
        let fragment = total - 9 - prefix;
        let rest = match cont { Some(ref c) => c.header_block.hpack.len(), None => 0 };
        assert!(cont.is_some() == (9 + prefix + n > limit), "headers.encode.continuation_iff_the_block_does_not_fit");
        assert!(cont.is_none() || total == limit, "headers.encode.frame_is_filled_before_a_continuation_is_used");
        assert!(fragment + rest == n, "headers.encode.fragment_plus_rest_is_the_block");
        std::mem::forget(cont);
        std::mem::forget(enc);
        std::mem::forget(buf);
    }

    fn hdr_encode_frame_size_kind_case(kind: u8) {
        let prefix = if kind == 1 { 4 } else { 0 };
        let room = 21 - prefix; // budget 30 = head 9 + 21
        hdr_encode_frame_size_case(kind, 0, 30);
        hdr_encode_frame_size_case(kind, room - 1, 30);
        hdr_encode_frame_size_case(kind, room, 30);
        hdr_encode_frame_size_case(kind, room + 1, 30);
        hdr_encode_frame_size_case(kind, 60, 30);
        kani::cover!(true, "cover.reached");
    }



    // @harness id=hdr_encode_frame_size_continuation props=C12,C04 kind=bounded bound=block_len_in_{0,room-1,room,room+1,60},budget_30 tier=quick timeout=400 fn=Continuation::encode,EncodingHeaderBlock::encode
    #[kani::proof]
    #[kani::unwind(8)]
    fn hdr_encode_frame_size_continuation() {
        hdr_encode_frame_size_kind_case(2);
    }

}
