//! Contracts for src/error.rs: what the application sees of an error.
#![allow(dead_code, unused_imports)]
use super::*;

/// (kind, stream id, reason code, initiator, debug-data length) of a public error.
/// kind: 0 reset, 1 go_away, 2 bare reason, 3 user, 4 io
pub(crate) fn pub_sig(e: &Error) -> (u8, u32, u32, u8, usize) {
    match e.kind {
        Kind::Reset(id, r, i) => (0, id.into(), r.into(), ini(i), 0),
        Kind::GoAway(ref d, r, i) => (1, 0, r.into(), ini(i), d.len()),
        Kind::Reason(r) => (2, 0, r.into(), 9, 0),
        Kind::User(_) => (3, 0, 0, 9, 0),
        Kind::Io(_) => (4, 0, 0, 9, 0),
    }
}

pub(crate) fn user_kind(e: &Error) -> Option<&UserError> {
    match e.kind {
        Kind::User(ref u) => Some(u),
        _ => None,
    }
}

use crate::verif_kani::ini;

/// Contract-equivalent stand-in for `impl From<proto::Error> for Error` (verified by
/// `err_from_proto_fidelity`): identical on Reset / GoAway; for Io it keeps the kind and drops the message
/// (the real body boxes the message into an `io::Error`, whose tagged-pointer representation costs CBMC
/// minutes).  Used via `#[kani::stub]` by harnesses of *callers* only.
pub(crate) fn stub_from_proto(src: proto::Error) -> Error {
    Error {
        kind: match src {
            proto::Error::Reset(id, r, i) => Kind::Reset(id, r, i),
            proto::Error::GoAway(d, r, i) => Kind::GoAway(d, r, i),
            proto::Error::Io(kind, _) => Kind::Io(kind.into()),
        },
    }
}

#[cfg(kani)]
mod proofs {
    use super::*;
    use crate::verif_kani::{any_initiator, any_proto_error, sig};

    // C17: a reset / GOAWAY surfaces with the exact 32-bit code, its origin and the debug data, for
    // every code.  Loop-free over all u32 codes, all ids, all initiators.
    // @harness id=err_from_proto_fidelity props=C17,C07 kind=complete tier=quick fn=From<proto::Error>@Error::from,Error::reason,Error::is_remote,Error::is_library,Error::is_reset,Error::is_go_away,Error::is_io
    #[kani::proof]
    fn err_from_proto_fidelity() {
        let pe = any_proto_error();
        let (k, id, code, who, dlen) = sig(&pe);
        let e: Error = pe.into();
        let (k2, id2, code2, who2, dlen2) = pub_sig(&e);
        if k == 0 {
            assert!(k2 == 0 && id2 == id && code2 == code && who2 == who, "err.from_proto.reset_preserved");
            assert!(e.reason() == Some(Reason::from(code)), "err.reason.reset_exact_code");
            assert!(e.is_reset() && !e.is_go_away() && !e.is_io(), "err.kind.reset");
        } else if k == 1 {
            assert!(k2 == 1 && code2 == code && who2 == who && dlen2 == dlen, "err.from_proto.go_away_preserved");
            assert!(e.reason() == Some(Reason::from(code)), "err.reason.go_away_exact_code");
            assert!(e.is_go_away() && !e.is_reset() && !e.is_io(), "err.kind.go_away");
        } else {
            assert!(k2 == 4 && e.is_io() && e.reason().is_none(), "err.from_proto.io");
        }
        if k != 2 {
            assert!(e.is_remote() == (who == 2), "err.is_remote.exact");
            assert!(e.is_library() == (who == 1), "err.is_library.exact");
        }
        kani::cover!(k == 0 && who == 2 && code > 13, "cover.remote_reset_unknown_code");
        kani::cover!(k == 1 && dlen > 0, "cover.go_away_with_debug");
        kani::cover!(k == 2, "cover.io");
    }

    // @harness id=err_from_reason_user props=C17 kind=complete tier=quick fn=From<Reason>@Error::from,From<UserError>@Error::from
    #[kani::proof]
    fn err_from_reason_user() {
        let code: u32 = kani::any();
        let e: Error = Reason::from(code).into();
        assert!(e.reason() == Some(Reason::from(code)), "err.from_reason.exact_code");
        assert!(!e.is_remote() && !e.is_library() && !e.is_io() && !e.is_reset() && !e.is_go_away(), "err.from_reason.kind");
        let u: Error = UserError::InactiveStreamId.into();
        assert!(u.reason().is_none() && !u.is_remote() && !u.is_io(), "err.from_user.kind");
        kani::cover!(code == 0xdead_beef, "cover.any_code");
    }
}
