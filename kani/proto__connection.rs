//! Contracts for two small pieces of src/proto/connection.rs on a REAL `Connection` (real Codec over
//! the symbolic transport, real Streams, no streams in the store).  `Connection::poll` / `poll2` /
//! `poll_ready` are NOT under contract here (they establish the single-slot preconditions used by
//! proto__go_away.rs / proto__ping_pong.rs / proto__settings.rs).
//!
//!   * `take_error(ours, initiator)` — what `poll` finally reports (C15/C17): the peer's GOAWAY, if
//!     one with an error code was received, wins over our own reason, with its debug data; it is
//!     reported once (the stored frame is taken).
//!   * `maybe_close_connection_if_no_streams` — no streams and no other handles: an abrupt
//!     GOAWAY(NO_ERROR, last_processed_id) is queued through `GoAway::go_away_now`; otherwise nothing.
#![allow(dead_code, unused_imports)]
use super::*;

pub(crate) fn mk_conn_config() -> Config {
    // the values of a default client Builder
    Config {
        next_stream_id: 1.into(),
        initial_max_send_streams: 100,
        max_send_buffer_size: 1024 * 400,
        reset_stream_duration: Duration::from_secs(30),
        reset_stream_max: 10,
        remote_reset_stream_max: 20,
        local_error_reset_streams_max: Some(1024),
        settings: frame::Settings::default(),
        data_frame_budget: 25600,
    }
}

#[cfg(kani)]
mod proofs {
    use super::*;
    use crate::proto::verif_kani::{IoMode, SymIo};
    use crate::verif_kani::{any_initiator, any_stream_id, ini, sig, SymBuf};

    type TestConn = Connection<SymIo, client::Peer, SymBuf>;

    fn mk_conn() -> TestConn {
        Connection::new(Codec::new(SymIo::new(IoMode::Accept)), mk_conn_config())
    }

    // @harness id=conn_take_error props=C15,C17,C08 kind=bounded bound=debug_data_len_in_{0,3} tier=quick fn=Connection::take_error,Connection::new
    #[kani::proof]
    #[kani::unwind(3)]
    fn conn_take_error() {
        fn body(shape: Option<bool>) -> u8 {
            let mut conn = mk_conn();
            let theirs_code: u32 = kani::any();
            let their_id = any_stream_id();
            // the GOAWAY received from the peer, as recv_frame stored it
            conn.inner.error = match shape {
                None => None,
                Some(false) => Some(frame::GoAway::new(their_id, Reason::from(theirs_code))),
                Some(true) => Some(frame::GoAway::with_debug_data(their_id, Reason::from(theirs_code), Bytes::from_static(b"dbg"))),
            };
            let ours_code: u32 = kani::any();
            let initiator = any_initiator();

            let r = conn.take_error(Reason::from(ours_code), initiator);

            assert!(conn.inner.error.is_none(), "conn.take_error.stored_goaway_taken");
            let theirs = if shape.is_some() { theirs_code } else { 0 };
            let branch = match r {
                Ok(()) => {
                    assert!(ours_code == 0 && theirs == 0, "conn.take_error.ok_only_if_nobody_reported_an_error");
                    1
                }
                Err(ref e) => {
                    let (k, _, code, who, dlen) = sig(e);
                    assert!(k == 1, "conn.take_error.err_is_go_away");
                    if theirs != 0 {
                        // the peer's reason and debug data win, whatever ours is
                        assert!(code == theirs && who == 2, "conn.take_error.remote_reason_wins");
                        assert!(dlen == if shape == Some(true) { 3 } else { 0 }, "conn.take_error.remote_debug_data_kept");
                        2
                    } else {
                        assert!(ours_code != 0 && code == ours_code && who == ini(initiator) && dlen == 0, "conn.take_error.otherwise_ours_with_its_initiator");
                        3
                    }
                }
            };
            std::mem::forget(r);
            std::mem::forget(conn);
            branch
        }
        let k: u8 = kani::any();
        let branch = match k % 3 {
            0 => body(None),
            1 => body(Some(false)),
            _ => body(Some(true)),
        };
        kani::cover!(branch == 1, "cover.clean_close");
        kani::cover!(branch == 2 && k % 3 == 2, "cover.remote_error_with_debug_data_wins");
        kani::cover!(branch == 3 && k % 3 == 1, "cover.ours_after_remote_no_error_goaway");
    }

    // @harness id=conn_maybe_close_if_no_streams props=C15,C08 kind=bounded bound=fresh_connection_no_streams tier=quick fn=Connection::maybe_close_connection_if_no_streams,DynConnection::go_away_now
    #[kani::proof]
    #[kani::unwind(3)]
    fn conn_maybe_close_if_no_streams() {
        fn body(other_handle: bool) {
            let mut conn = mk_conn();
            let g0 = conn.inner.go_away.vk_sig();
            assert!(g0 == (false, None, false, None), "conn.new.not_going_away");
            let extra = if other_handle { Some(conn.streams().clone()) } else { None };

            conn.maybe_close_connection_if_no_streams();

            let g1 = conn.inner.go_away.vk_sig();
            if other_handle {
                // a SendRequest / stream handle is still alive: keep the connection
                assert!(g1 == g0, "conn.maybe_close.kept_while_handles_exist");
            } else {
                // abrupt close: GOAWAY(last_processed_id = 0 on a fresh connection, NO_ERROR), close_now
                assert!(g1.0 && g1.1 == Some((0, 0)) && !g1.2, "conn.maybe_close.goaway_no_error_close_now");
                assert!(matches!(g1.3, Some((0, 0, _, 0))), "conn.maybe_close.frame_queued_with_last_processed_id");
                assert!(conn.inner.go_away.vk_wf(), "conn.maybe_close.goaway_invariant_holds");
            }
            std::mem::forget(extra);
            std::mem::forget(conn);
        }
        let k: bool = kani::any();
        if k {
            body(true);
        } else {
            body(false);
        }
        kani::cover!(k, "cover.kept");
        kani::cover!(!k, "cover.closed");
    }
}
