//! Contracts for src/frame/util.rs: `strip_padding` (RFC 9113 §6.1 / §6.2 padding layout).
//!
//!   | Pad Length (8) | data (*) | Padding (Pad Length octets) |
//!
//! C01/C12: for a payload of n octets whose first octet is p: p >= n (or n == 0) -> Err(TooMuchPadding)
//!      ("padding that exceeds the size remaining for the payload MUST be treated as PROTOCOL_ERROR");
//!      otherwise the payload becomes EXACTLY octets [1 .. n-p) — stated on the view itself (same start
//!      address + 1, length n-1-p), which is stronger than comparing contents — and p is returned.
//! C08: no payload panics: every length 0..=2^24-1, every first octet.
#![allow(dead_code, unused_imports)]
use super::*;

#[cfg(kani)]
mod proofs {
    use super::*;
    use crate::frame::verif_kani::{any_payload_static, WIRE_MAX};

    // @harness id=util_strip_padding props=C01,C12,C09,C08 kind=complete tier=quick fn=strip_padding
    #[kani::proof]
    fn util_strip_padding() {
        // a `Bytes` over leaked memory has the static vtable: no reference counting to model (what backs
        // a `Bytes` is the bytes crate's business)
        let s = any_payload_static(WIRE_MAX);
        let (base, n, first) = (s.as_ptr(), s.len(), if s.is_empty() { 0 } else { s[0] });
        let mut payload = Bytes::from_static(s);
        let r = strip_padding(&mut payload);
        let p = first as usize;
        let too_much = n == 0 || p >= n;
        assert!(r.is_err() == too_much, "util.strip_padding.err_iff_pad_len_ge_payload_len");
        match &r {
            Ok(pad) => {
                assert!(*pad == first, "util.strip_padding.returns_pad_length_octet");
                assert!(payload.len() == n - 1 - p, "util.strip_padding.data_len_is_n_minus_1_minus_pad");
                assert!(payload.as_ptr() == base.wrapping_add(1), "util.strip_padding.data_starts_after_pad_length_octet");
                assert!(payload.len() + 1 + *pad as usize == n, "util.strip_padding.accounts_for_every_octet");
            }
            Err(e) => {
                assert!(*e == Error::TooMuchPadding, "util.strip_padding.err_is_too_much_padding");
                assert!(payload.len() == n && payload.as_ptr() == base, "util.strip_padding.err_leaves_payload_untouched");
            }
        }
        kani::cover!(r.is_ok() && p == 255 && n == 256 && payload.is_empty(), "cover.ok_max_padding_no_data");
        kani::cover!(r.is_ok() && p == 0 && n == WIRE_MAX, "cover.ok_no_padding_longest");
        kani::cover!(r.is_err() && n == 0, "cover.err_empty");
        kani::cover!(r.is_err() && p == n && n > 0, "cover.err_pad_equals_len");
        std::mem::forget(payload);
    }
}
