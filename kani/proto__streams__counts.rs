//! Contracts for src/proto/streams/counts.rs: concurrency counters, reset quotas, DATA-frame budget.
#![allow(dead_code, unused_imports)]
use super::*;
use super::store::Resolve;

/// (max_send, num_send, max_recv, num_recv, max_local_reset, num_local_reset, max_remote_reset,
///  num_remote_reset, num_local_error_reset, budget_available, budget_max, empty_frames)
pub(crate) type RawCounts = (usize, usize, usize, usize, usize, usize, usize, usize, usize, usize, usize, usize);

pub(crate) fn raw_counts(c: &Counts) -> RawCounts {
    (
        c.max_send_streams,
        c.num_send_streams,
        c.max_recv_streams,
        c.num_recv_streams,
        c.max_local_reset_streams,
        c.num_local_reset_streams,
        c.max_remote_reset_streams,
        c.num_remote_reset_streams,
        c.num_local_error_reset_streams,
        c.data_frame_budget.available,
        c.data_frame_budget.max,
        c.num_recv_empty_data_frames,
    )
}
pub(crate) fn max_local_error(c: &Counts) -> Option<usize> {
    c.max_local_error_reset_streams
}

/// Any counters satisfying I-counts: every current value <= its maximum, budget.available <= max,
/// empty-frame counter <= the fixed limit.
#[cfg(kani)]
pub(crate) fn any_counts(peer: peer::Dyn) -> Counts {
    let c = Counts {
        peer,
        max_send_streams: kani::any(),
        num_send_streams: kani::any(),
        max_recv_streams: kani::any(),
        num_recv_streams: kani::any(),
        max_local_reset_streams: kani::any(),
        num_local_reset_streams: kani::any(),
        max_remote_reset_streams: kani::any(),
        num_remote_reset_streams: kani::any(),
        max_local_error_reset_streams: if kani::any() { Some(kani::any()) } else { None },
        num_local_error_reset_streams: kani::any(),
        data_frame_budget: Budget { available: kani::any(), max: kani::any() },
        num_recv_empty_data_frames: kani::any(),
    };
    kani::assume(c.num_local_reset_streams <= c.max_local_reset_streams);
    kani::assume(c.num_remote_reset_streams <= c.max_remote_reset_streams);
    kani::assume(c.data_frame_budget.available <= c.data_frame_budget.max);
    kani::assume(c.num_recv_empty_data_frames <= MAX_RECV_EMPTY_DATA_FRAMES);
    if let Some(m) = c.max_local_error_reset_streams {
        kani::assume(c.num_local_error_reset_streams <= m);
    }
    c
}

#[cfg(kani)]
pub(crate) fn any_peer() -> peer::Dyn {
    if kani::any() {
        peer::Dyn::Client
    } else {
        peer::Dyn::Server
    }
}

/// `Counts` has a `Drop` that debug-asserts "no streams left"; harnesses end with this.
pub(crate) fn forget_counts(c: Counts) {
    std::mem::forget(c);
}

#[cfg(kani)]
mod proofs {
    use super::*;
    use super::super::state::verif_kani::{abs, any_state, mk_state, rfc_closed, Abs};
    use super::super::store::verif_kani::{ids_contains, peek, put, slab_contains, slab_len};
    use super::super::stream::verif_kani::any_stream;

    // C05: admission arithmetic. can_inc <=> num < max; inc requires can_inc (asserted) and adds exactly
    // one and marks the stream counted; the counter therefore never exceeds the limit at an admission.
    // @harness id=counts_send_slots props=C05,C08 kind=complete tier=quick fn=Counts::can_inc_num_send_streams,Counts::inc_num_send_streams,Counts::next_send_stream_will_reach_capacity,Counts::has_streams,Counts::max_send_streams
    #[kani::proof]
    fn counts_send_slots() {
        let mut c = any_counts(any_peer());
        let r0 = raw_counts(&c);
        assert!(c.can_inc_num_send_streams() == (r0.1 < r0.0), "counts.can_inc_send.iff_below_limit");
        assert!(c.has_streams() == (r0.1 != 0 || r0.3 != 0), "counts.has_streams.exact");
        assert!(c.max_send_streams() == r0.0, "counts.max_send_streams.exact");
        // requires: num + 1 does not overflow (num <= number of live streams <= 2^31)
        kani::assume(r0.1 < usize::MAX);
        assert!(c.next_send_stream_will_reach_capacity() == (r0.0 <= r0.1 + 1), "counts.next_send_will_reach_capacity.exact");
        let mut store = Store::new();
        let mut st = Stream::new(StreamId::from(1), 0, 0);
        st.is_counted = false;
        let key = put(&mut store, st);
        if c.can_inc_num_send_streams() {
            let mut ptr = store.resolve(key);
            c.inc_num_send_streams(&mut ptr);
            let r1 = raw_counts(&c);
            assert!(r1.1 == r0.1 + 1 && r1.1 <= r1.0, "counts.inc_send.plus_one_within_limit");
            assert!(ptr.is_counted, "counts.inc_send.marks_counted");
            assert!((r1.0, r1.2, r1.3, r1.4, r1.5, r1.6, r1.7, r1.8, r1.9, r1.10, r1.11) == (r0.0, r0.2, r0.3, r0.4, r0.5, r0.6, r0.7, r0.8, r0.9, r0.10, r0.11), "counts.inc_send.frame");
        }
        kani::cover!(r0.0 == 0, "cover.limit_zero");
        kani::cover!(r0.1 + 1 == r0.0, "cover.last_slot");
        forget_counts(c);
        std::mem::forget(store);
    }

    // @harness id=counts_recv_slots props=C05,C18,C08 kind=complete tier=quick fn=Counts::can_inc_num_recv_streams,Counts::inc_num_recv_streams,Counts::max_recv_streams
    #[kani::proof]
    fn counts_recv_slots() {
        let mut c = any_counts(any_peer());
        let r0 = raw_counts(&c);
        assert!(c.can_inc_num_recv_streams() == (r0.3 < r0.2), "counts.can_inc_recv.iff_below_limit");
        assert!(c.max_recv_streams() == r0.2, "counts.max_recv_streams.exact");
        let mut store = Store::new();
        let key = put(&mut store, Stream::new(StreamId::from(1), 0, 0));
        if c.can_inc_num_recv_streams() {
            let mut ptr = store.resolve(key);
            c.inc_num_recv_streams(&mut ptr);
            let r1 = raw_counts(&c);
            assert!(r1.3 == r0.3 + 1 && r1.3 <= r1.2, "counts.inc_recv.plus_one_within_limit");
            assert!(ptr.is_counted, "counts.inc_recv.marks_counted");
            assert!((r1.0, r1.1, r1.2, r1.4, r1.5, r1.6, r1.7, r1.8, r1.9, r1.10, r1.11) == (r0.0, r0.1, r0.2, r0.4, r0.5, r0.6, r0.7, r0.8, r0.9, r0.10, r0.11), "counts.inc_recv.frame");
        }
        kani::cover!(r0.2 == 0, "cover.limit_zero");
        kani::cover!(c.can_inc_num_recv_streams(), "cover.admit");
        forget_counts(c);
        std::mem::forget(store);
    }

    // C18: reset quotas.
    // @harness id=counts_reset_quotas props=C18,C17,C08 kind=complete tier=quick fn=Counts::can_inc_num_reset_streams,Counts::inc_num_reset_streams,Counts::can_inc_num_remote_reset_streams,Counts::inc_num_remote_reset_streams,Counts::dec_num_remote_reset_streams,Counts::can_inc_num_local_error_resets,Counts::inc_num_local_error_resets,Counts::max_local_error_resets,Counts::max_remote_reset_streams
    #[kani::proof]
    fn counts_reset_quotas() {
        let mut c = any_counts(any_peer());
        let r0 = raw_counts(&c);
        assert!(c.can_inc_num_reset_streams() == (r0.5 < r0.4), "counts.can_inc_reset.iff_below_limit");
        assert!(c.can_inc_num_remote_reset_streams() == (r0.7 < r0.6), "counts.can_inc_remote_reset.iff_below_limit");
        assert!(c.max_remote_reset_streams() == r0.6, "counts.max_remote_reset_streams.exact");
        let mle = max_local_error(&c);
        assert!(c.max_local_error_resets() == mle, "counts.max_local_error_resets.exact");
        assert!(c.can_inc_num_local_error_resets() == match mle { Some(m) => r0.8 < m, None => true }, "counts.can_inc_local_error.iff_below_limit_or_unlimited");
        match kani::any::<u8>() % 4 {
            0 => {
                if c.can_inc_num_reset_streams() {
                    c.inc_num_reset_streams();
                    let r1 = raw_counts(&c);
                    assert!(r1.5 == r0.5 + 1 && r1.5 <= r1.4, "counts.inc_reset.plus_one_within_limit");
                }
            }
            1 => {
                if c.can_inc_num_remote_reset_streams() {
                    c.inc_num_remote_reset_streams();
                    let r1 = raw_counts(&c);
                    assert!(r1.7 == r0.7 + 1 && r1.7 <= r1.6, "counts.inc_remote_reset.plus_one_within_limit");
                }
            }
            2 => {
                // requires: paired with an earlier inc (Recv::next_incoming on a remotely reset stream)
                kani::assume(r0.7 > 0);
                c.dec_num_remote_reset_streams();
                assert!(raw_counts(&c).7 == r0.7 - 1, "counts.dec_remote_reset.minus_one");
            }
            _ => {
                kani::assume(mle.is_some() || r0.8 < usize::MAX);
                if c.can_inc_num_local_error_resets() {
                    c.inc_num_local_error_resets();
                    let r1 = raw_counts(&c);
                    assert!(r1.8 == r0.8 + 1, "counts.inc_local_error.plus_one");
                    assert!(match mle { Some(m) => r1.8 <= m, None => true }, "counts.inc_local_error.within_limit");
                }
            }
        }
        kani::cover!(r0.4 == r0.5, "cover.reset_quota_full");
        kani::cover!(mle == Some(0), "cover.zero_error_quota");
        forget_counts(c);
    }

    // C18: DATA-frame overhead budget: 0 <= available <= max always; tiny frames are charged exactly
    // (threshold - len), big frames refund (len - threshold) capped at max; more than 100 empty frames
    // or an exhausted budget is an error (=> connection error upstream), never an underflow.
    // @harness id=counts_data_frame_budget props=C18,C08 kind=complete tier=quick fn=Counts::record_data_frame,Counts::release_data_frame,Budget::consume,Budget::replenish,Budget::new
    #[kani::proof]
    fn counts_data_frame_budget() {
        let mut c = any_counts(any_peer());
        let r0 = raw_counts(&c);
        let len: usize = kani::any();
        let t = DEFAULT_DATA_FRAME_OVERHEAD_THRESHOLD;
        if kani::any() {
            let r = c.record_data_frame(len);
            let r1 = raw_counts(&c);
            assert!(r1.9 <= r1.10 && r1.10 == r0.10, "counts.record_data_frame.budget_within_bounds");
            if len == 0 {
                assert!(r1.9 == r0.9, "counts.record_data_frame.empty_frames_do_not_touch_budget");
                assert!(r.is_ok() == (r0.11 + 1 <= MAX_RECV_EMPTY_DATA_FRAMES), "counts.record_data_frame.at_most_100_empty_frames");
                assert!(r1.11 == r0.11 + 1, "counts.record_data_frame.empty_counted");
            } else if len < t {
                let cost = t - len;
                if cost <= r0.9 {
                    assert!(r.is_ok() && r1.9 == r0.9 - cost, "counts.record_data_frame.small_frame_charged_exactly");
                } else {
                    assert!(r.is_err() && r1.9 == r0.9, "counts.record_data_frame.exhausted_is_error_not_underflow");
                }
                assert!(r1.11 == r0.11, "counts.record_data_frame.nonempty_does_not_count_empty");
            } else {
                let refund = len - t;
                let want = if r0.9 as u128 + refund as u128 > r0.10 as u128 { r0.10 } else { r0.9 + refund };
                assert!(r.is_ok() && r1.9 == want, "counts.record_data_frame.big_frame_refund_capped");
            }
        } else {
            c.release_data_frame(len);
            let r1 = raw_counts(&c);
            assert!(r1.9 <= r1.10 && r1.10 == r0.10 && r1.11 == r0.11, "counts.release_data_frame.budget_within_bounds");
            if len != 0 && len < t {
                let refund = t - len;
                let want = if r0.9 as u128 + refund as u128 > r0.10 as u128 { r0.10 } else { r0.9 + refund };
                assert!(r1.9 == want, "counts.release_data_frame.refunds_what_was_charged");
            } else {
                assert!(r1.9 == r0.9, "counts.release_data_frame.others_untouched");
            }
        }
        let b = Budget::new(len);
        assert!(b.available == len && b.max == len, "counts.budget_new.full");
        kani::cover!(len > 0 && len < t, "cover.small");
        kani::cover!(len == 0 && r0.11 == MAX_RECV_EMPTY_DATA_FRAMES, "cover.empty_flood");
        forget_counts(c);
    }

    // C14/C05: what a peer SETTINGS changes.
    // @harness id=counts_apply_remote_settings props=C05,C14,C08 kind=complete tier=quick fn=Counts::apply_remote_settings
    #[kani::proof]
    fn counts_apply_remote_settings() {
        let mut c = any_counts(any_peer());
        let r0 = raw_counts(&c);
        let mut f = frame::Settings::default();
        let has: bool = kani::any();
        let v: u32 = kani::any();
        if has {
            f.set_max_concurrent_streams(Some(v));
        }
        let is_initial: bool = kani::any();
        c.apply_remote_settings(&f, is_initial);
        let r1 = raw_counts(&c);
        let want = if has { v as usize } else if is_initial { usize::MAX } else { r0.0 };
        assert!(r1.0 == want, "counts.apply_remote_settings.limit_is_peer_value_or_unlimited_or_unchanged");
        assert!((r1.1, r1.2, r1.3, r1.4, r1.5, r1.6, r1.7, r1.8, r1.9, r1.10, r1.11) == (r0.1, r0.2, r0.3, r0.4, r0.5, r0.6, r0.7, r0.8, r0.9, r0.10, r0.11), "counts.apply_remote_settings.frame");
        kani::cover!(has && v == 0, "cover.zero_limit");
        kani::cover!(!has && !is_initial, "cover.unchanged");
        forget_counts(c);
    }

    // C05/C18/C19: transition_after — the single place where a slot is freed and a stream forgotten.
    // One stream in the store (slab + id map), any state, any flags.
    // @harness id=counts_transition_after props=C05,C18,C19,C08 kind=complete tier=quick fn=Counts::transition_after,Counts::dec_num_streams,Counts::dec_num_reset_streams,Ptr::unlink,Ptr::remove
    #[kani::proof]
    #[kani::unwind(3)] // id-map association list holds <= 1 entry; unwinding assertions check the bound
    fn counts_transition_after() {
        let peer = any_peer();
        let mut c = any_counts(peer);
        let idv: u32 = kani::any();
        kani::assume(idv >= 1 && idv <= u32::MAX >> 1);
        let id = StreamId::from(idv);
        let mut st = any_stream(id);
        // reset_at is None in any_stream (no Instant under CBMC): the "remembered as locally reset" class
        // is exercised by counts_transition_after_reset_pending.
        let is_reset_counted: bool = kani::any();
        let local = peer.is_local_init(id);
        // requires (I-counts): a counted stream is included in the counter of its direction; the
        // caller passes is_reset_counted only if the stream had been counted as a pending reset.
        if st.is_counted {
            kani::assume(if local { raw_counts(&c).1 > 0 } else { raw_counts(&c).3 > 0 });
        }
        if is_reset_counted {
            kani::assume(raw_counts(&c).5 > 0);
        }
        let closed = st.is_closed();
        let released_expected = {
            // after the call the flags are unchanged except is_counted; release does not depend on it
            st.is_released()
        };
        let counted0 = st.is_counted;
        let scheduled = st.state.is_scheduled_reset();
        let r0 = raw_counts(&c);
        let mut store = Store::new();
        let key = put(&mut store, st);
        c.transition_after(store.resolve(key), is_reset_counted);
        let r1 = raw_counts(&c);
        let freed = closed && counted0 && !scheduled;
        if freed {
            if local {
                assert!(r1.1 == r0.1 - 1 && r1.3 == r0.3, "counts.transition_after.local_slot_freed_exactly_once");
            } else {
                assert!(r1.3 == r0.3 - 1 && r1.1 == r0.1, "counts.transition_after.remote_slot_freed_exactly_once");
            }
        } else {
            assert!(r1.1 == r0.1 && r1.3 == r0.3, "counts.transition_after.no_slot_change_otherwise");
        }
        assert!(r1.5 == if closed && is_reset_counted { r0.5 - 1 } else { r0.5 }, "counts.transition_after.reset_quota_released_iff_closed");
        assert!((r1.0, r1.2, r1.4, r1.6, r1.7, r1.8, r1.9, r1.10, r1.11) == (r0.0, r0.2, r0.4, r0.6, r0.7, r0.8, r0.9, r0.10, r0.11), "counts.transition_after.frame");
        // storage: forgotten <=> released; a closed stream is unlinked from the id map
        assert!(slab_contains(&store, key) == !released_expected, "counts.transition_after.removed_iff_released");
        assert!(ids_contains(&store, id) == !closed, "counts.transition_after.closed_stream_unlinked_from_id_map");
        if let Some(s) = peek(&store, key) {
            assert!(s.is_counted == (counted0 && !freed), "counts.transition_after.is_counted_tracks_counter");
        }
        kani::cover!(freed && local, "cover.freed_local");
        kani::cover!(released_expected, "cover.released");
        kani::cover!(closed && !released_expected, "cover.closed_but_referenced");
        forget_counts(c);
        std::mem::forget(store);
    }
}
