//! Contracts for src/proto/streams/prioritize.rs: the send scheduler — capacity pool (C16), window
//! accounting of emitted DATA (C02), frame queues (C01/C04), reset emission (C17), admission (C05).
//!
//! World used by the harnesses: ONE stream in a real `Store` (slab + id map), a real `Prioritize` with
//! symbolic connection window, real `Counts`, a real `Buffer<Frame<SymBuf>>`.  Queue membership is
//! built through the real `Queue::push`, so flags and lists are consistent (I-queue).  Because every
//! function under contract touches only the stream it is given and the connection-level fields, a
//! one-stream world is not a bound on the contract; functions that iterate over a queue of streams are
//! labelled bounded.
#![allow(dead_code, unused_imports)]
use super::*;
use super::store::Resolve;
use crate::verif_kani::{any_waker_slot, noop_waker, SymBuf};

pub(crate) type PFrame = Frame<SymBuf>;

pub(crate) fn prio_flow(p: &Prioritize) -> (i32, i32) {
    super::flow_control::verif_kani::raw(&p.flow)
}
pub(crate) fn prio_max_buffer(p: &Prioritize) -> usize {
    p.max_buffer_size
}
/// 0 nothing, 1 a DATA frame of `key` is in the codec, 2 drop-on-return
pub(crate) fn prio_in_flight(p: &Prioritize) -> (u8, Option<store::Key>) {
    match p.in_flight_data_frame {
        InFlightData::Nothing => (0, None),
        InFlightData::DataFrame(k) => (1, Some(k)),
        InFlightData::Drop => (2, None),
    }
}
pub(crate) fn set_in_flight(p: &mut Prioritize, k: Option<store::Key>, drop: bool) {
    p.in_flight_data_frame = match (k, drop) {
        (Some(k), _) => InFlightData::DataFrame(k),
        (None, true) => InFlightData::Drop,
        (None, false) => InFlightData::Nothing,
    };
}
pub(crate) fn pending_send_is_empty(p: &Prioritize) -> bool {
    p.pending_send.is_empty()
}
pub(crate) fn pending_open_is_empty(p: &Prioritize) -> bool {
    p.pending_open.is_empty()
}
pub(crate) fn pending_capacity_is_empty(p: &Prioritize) -> bool {
    p.pending_capacity.is_empty()
}

/// A `Prioritize` with the given connection send window / unassigned pool and empty queues.
pub(crate) fn mk_prioritize(window: i32, available: i32, max_buffer_size: usize) -> Prioritize {
    Prioritize {
        pending_send: store::Queue::new(),
        pending_capacity: store::Queue::new(),
        pending_open: store::Queue::new(),
        flow: super::flow_control::verif_kani::mk_flow(window, available),
        last_opened_id: StreamId::ZERO,
        in_flight_data_frame: InFlightData::Nothing,
        max_buffer_size,
    }
}

/// Any connection-level send state (I-win; the connection window is never negative: SETTINGS do not
/// touch it; the unassigned pool is between 0 and 2^31-1).
#[cfg(kani)]
pub(crate) fn any_prioritize() -> Prioritize {
    let (w, a): (i32, i32) = (kani::any(), kani::any());
    kani::assume(w >= 0 && a >= 0);
    mk_prioritize(w, a, kani::any())
}

pub(crate) fn data_frame(id: StreamId, len: usize, eos: bool) -> frame::Data<SymBuf> {
    let mut d = frame::Data::new(id, SymBuf { rem: len });
    d.set_end_stream(eos);
    d
}

/// I-cap / I-send-pool restricted to one stream: 0 <= available <= window_size(), available <= requested.
pub(crate) fn wf_send(s: &Stream) -> bool {
    let (w, a) = super::flow_control::verif_kani::raw(&s.send_flow);
    a >= 0 && (a as i64) <= (if w < 0 { 0 } else { w as i64 }) && (a as i64) <= s.requested_send_capacity as i64
}

pub(crate) fn prio_push_pending_send(p: &mut Prioritize, ptr: &mut store::Ptr) {
    p.pending_send.push(ptr);
}
pub(crate) fn prio_push_pending_capacity(p: &mut Prioritize, ptr: &mut store::Ptr) {
    p.pending_capacity.push(ptr);
}
pub(crate) fn prio_push_pending_open(p: &mut Prioritize, ptr: &mut store::Ptr) {
    p.pending_open.push(ptr);
}

#[cfg(kani)]
mod proofs {
    use super::*;
    use super::super::counts::verif_kani::{any_counts, any_peer, forget_counts, raw_counts};
    use super::super::flow_control::verif_kani::{mk_flow, raw};
    use super::super::state::verif_kani::{abs, any_state, any_state_light, cause_sig, mk_scheduled, mk_state, rfc_closed, rfc_send_closed, Abs};
    use super::super::store::verif_kani::{ids_contains, peek, peek_mut, put, slab_contains};
    use super::super::stream::verif_kani::{any_stream, any_stream_with_state, has_send_task, set_send_task, spec_capacity};

    const ID: u32 = 1;

    /// One-stream world.  All queue flags false and queues empty; callers enqueue through the real push.
    fn world(state: State) -> (Store, store::Key, Prioritize) {
        let mut st = any_stream_with_state(StreamId::from(ID), state);
        st.is_pending_send = false;
        st.is_pending_send_capacity = false;
        st.is_pending_open = false;
        st.is_pending_accept = false;
        st.is_pending_window_update = false;
        let mut store = Store::new();
        let key = put(&mut store, st);
        (store, key, any_prioritize())
    }

    // ------------------------------------------------------------------ capacity pool (C16, C02, C06)

    // try_assign_capacity: moves min(requested - assigned, peer window - assigned, pool) from the
    // connection pool to the stream; conservation; never beyond the peer's stream window; nothing for a
    // stream that is still waiting for a concurrency slot; the stream is queued for what it still lacks.
    // @harness id=prio_try_assign_capacity props=C16,C02,C06,C08 kind=complete tier=quick fn=Prioritize::try_assign_capacity
    #[kani::proof]
    #[kani::unwind(3)]
    fn prio_try_assign_capacity() {
        let (mut store, key, mut p) = world(any_state_light());
        let pending_open: bool = kani::any();
        {
            let s = peek_mut(&mut store, key).unwrap();
            kani::assume(wf_send(s));
            s.is_pending_open = pending_open; // flag only: try_assign_capacity does not touch that queue
            kani::assume(!(pending_open && s.is_pending_push));
        }
        let s0 = peek(&store, key).unwrap();
        let (w0, a0) = raw(&s0.send_flow);
        let (cw0, ca0) = prio_flow(&p);
        let req = s0.requested_send_capacity;
        let buffered = s0.buffered_send_data;
        let streaming = s0.state.is_send_streaming();
        let send_ready = s0.is_send_ready();
        let cap0 = s0.capacity(prio_max_buffer(&p));
        let had_task = has_send_task(s0);

        let mut ptr = store.resolve(key);
        p.try_assign_capacity(&mut ptr);

        let s1 = peek(&store, key).unwrap();
        let (w1, a1) = raw(&s1.send_flow);
        let (cw1, ca1) = prio_flow(&p);
        let assigned = a1 as i64 - a0 as i64;
        assert!(w1 == w0 && cw1 == cw0, "prio.try_assign.windows_untouched");
        assert!(assigned >= 0, "prio.try_assign.never_takes_away");
        assert!(ca1 as i64 == ca0 as i64 - assigned, "prio.try_assign.pool_conserved");
        assert!(a1 as i64 <= req as i64, "prio.try_assign.le_requested");
        assert!(a1 as i64 <= if w0 < 0 { 0 } else { w0 as i64 }, "prio.try_assign.le_peer_stream_window");
        assert!(assigned <= ca0 as i64 && ca1 >= 0, "prio.try_assign.le_pool");
        if pending_open {
            assert!(assigned == 0 && !s1.is_pending_send_capacity && !s1.is_pending_send, "prio.try_assign.nothing_while_waiting_for_slot");
        }
        let wants = !pending_open && (streaming || buffered > 0);
        let room = (if w0 < 0 { 0 } else { w0 as i64 }) - a0 as i64;
        let lacking = req as i64 - a0 as i64;
        if wants && room > 0 && lacking > 0 {
            // gets as much as all three limits allow
            let m = if lacking < room { lacking } else { room };
            let m = if (ca0 as i64) < m { ca0 as i64 } else { m };
            assert!(assigned == m, "prio.try_assign.assigns_the_minimum_of_the_three_limits");
            // still lacking and the peer's stream window has room => queued for connection capacity
            if (a1 as i64) < req as i64 && (w1 as i64) > a1 as i64 {
                assert!(s1.is_pending_send_capacity && !pending_capacity_is_empty(&p), "prio.try_assign.owed_capacity_is_queued");
            }
            if buffered > 0 && send_ready {
                assert!(s1.is_pending_send && !pending_send_is_empty(&p), "prio.try_assign.buffered_data_is_scheduled");
            }
        } else {
            assert!(assigned == 0, "prio.try_assign.nothing_when_not_wanted_or_no_room");
        }
        let cap1 = s1.capacity(prio_max_buffer(&p));
        if cap1 > cap0 {
            assert!(!has_send_task(s1) && s1.send_capacity_inc, "prio.try_assign.sender_woken_when_capacity_grew");
        }
        kani::cover!(assigned > 0 && s1.is_pending_send_capacity, "cover.partial_assignment_queued");
        kani::cover!(assigned > 0 && cap1 > cap0 && had_task, "cover.woken");
        kani::cover!(pending_open, "cover.pending_open");
        std::mem::forget(store);
    }

    // reserve_capacity(n): the three arms.  Conservation of pool + stream; lowering returns the excess to
    // the pool at once; raising on a closed send half is a no-op; requested' = n + buffered (capped).
    // @harness id=prio_reserve_capacity props=C16,C02,C06,C08 kind=complete tier=quick fn=Prioritize::reserve_capacity
    #[kani::proof]
    #[kani::unwind(3)]
    fn prio_reserve_capacity() {
        let (mut store, key, mut p) = world(any_state_light());
        let mut counts = any_counts(any_peer());
        {
            let s = peek_mut(&mut store, key).unwrap();
            kani::assume(wf_send(s));
            s.is_pending_push = false;
            // requires: buffered data fits the u32 arithmetic of the body (every queued DATA frame is
            // <= 2^31-1 bytes and the application is bounded by memory)
            kani::assume(s.buffered_send_data <= (u32::MAX as usize) / 2);
        }
        let s0 = peek(&store, key).unwrap();
        let (w0, a0) = raw(&s0.send_flow);
        let (cw0, ca0) = prio_flow(&p);
        // requires (I-send-pool): pool + this stream's share <= connection window <= 2^31-1
        kani::assume(ca0 as i64 + a0 as i64 <= MAX_WINDOW_SIZE as i64);
        let req0 = s0.requested_send_capacity;
        let buffered = s0.buffered_send_data;
        let send_closed = s0.state.is_send_closed();
        let n: u32 = kani::any();
        let target = n as u64 + buffered as u64;

        let mut ptr = store.resolve(key);
        p.reserve_capacity(n, &mut ptr, &mut counts);

        let s1 = peek(&store, key).unwrap();
        let (w1, a1) = raw(&s1.send_flow);
        let (cw1, ca1) = prio_flow(&p);
        assert!(w1 == w0 && cw1 == cw0, "prio.reserve.windows_untouched");
        assert!(ca1 as i64 + a1 as i64 == ca0 as i64 + a0 as i64, "prio.reserve.pool_plus_stream_conserved");
        assert!(a1 >= 0 && (a1 as i64) <= s1.requested_send_capacity as i64, "prio.reserve.assigned_le_requested");
        if target < req0 as u64 {
            assert!(s1.requested_send_capacity as u64 == target, "prio.reserve.lowered_request_recorded");
            // whatever exceeded the new request went back to the pool (and was possibly re-assigned to
            // this same stream only up to the new request)
            assert!((a1 as u64) <= target, "prio.reserve.lowering_returns_excess");
        } else if target > req0 as u64 {
            if send_closed {
                assert!(s1.requested_send_capacity == req0 && a1 == a0, "prio.reserve.raise_on_closed_send_half_is_noop");
            } else {
                let capped = if target > u32::MAX as u64 { u32::MAX as u64 } else { target };
                assert!(s1.requested_send_capacity as u64 == capped, "prio.reserve.raised_request_recorded");
                assert!(a1 >= a0, "prio.reserve.raise_never_takes_away");
            }
        } else {
            assert!(s1.requested_send_capacity == req0 && a1 == a0 && ca1 == ca0, "prio.reserve.equal_is_noop");
        }
        kani::cover!(target < req0 as u64 && a0 as u64 > target, "cover.lowering_reclaims");
        kani::cover!(target > req0 as u64 && !send_closed && a1 > a0, "cover.raise_assigns");
        forget_counts(counts);
        std::mem::forget(store);
    }

    // reclaim_all_capacity / reclaim_reserved_capacity: what a stream gives up reappears in the pool.
    // @harness id=prio_reclaim_capacity props=C16,C17,C02,C08 kind=complete tier=quick fn=Prioritize::reclaim_all_capacity,Prioritize::reclaim_reserved_capacity
    #[kani::proof]
    #[kani::unwind(3)]
    fn prio_reclaim_capacity() {
        // a stream whose send side is finished (the callers: send_reset, recv_reset/err paths, drop) —
        // so the freed capacity is not handed straight back to it
        let (mut store, key, mut p) = world(any_state_light());
        let mut counts = any_counts(any_peer());
        {
            let s = peek_mut(&mut store, key).unwrap();
            kani::assume(wf_send(s));
            s.is_pending_push = false;
        }
        let s0 = peek(&store, key).unwrap();
        let (w0, a0) = raw(&s0.send_flow);
        let (cw0, ca0) = prio_flow(&p);
        kani::assume(ca0 as i64 + a0 as i64 <= MAX_WINDOW_SIZE as i64); // I-send-pool
        let buffered = s0.buffered_send_data;
        let wants_more = s0.state.is_send_streaming() || buffered > 0;
        let all: bool = kani::any();
        let mut ptr = store.resolve(key);
        if all {
            p.reclaim_all_capacity(&mut ptr, &mut counts);
        } else {
            p.reclaim_reserved_capacity(&mut ptr, &mut counts);
        }
        let s1 = peek(&store, key).unwrap();
        let (w1, a1) = raw(&s1.send_flow);
        let (cw1, ca1) = prio_flow(&p);
        assert!(w1 == w0 && cw1 == cw0, "prio.reclaim.windows_untouched");
        assert!(ca1 as i64 + a1 as i64 == ca0 as i64 + a0 as i64, "prio.reclaim.pool_plus_stream_conserved");
        assert!(a1 >= 0 && ca1 >= 0, "prio.reclaim.nothing_negative");
        if all {
            if !wants_more {
                assert!(a1 == 0 && ca1 as i64 == ca0 as i64 + a0 as i64, "prio.reclaim_all.everything_back_in_pool");
            }
        } else {
            assert!((a1 as u64) >= core::cmp::min(a0 as u64, buffered as u64), "prio.reclaim_reserved.keeps_capacity_for_buffered_data");
            if !wants_more {
                assert!(a1 as u64 == core::cmp::min(a0 as u64, buffered as u64), "prio.reclaim_reserved.returns_exactly_the_unused_reservation");
            }
        }
        kani::cover!(all && a0 > 0 && !wants_more, "cover.all");
        kani::cover!(!all && a0 as u64 > buffered as u64, "cover.reserved");
        forget_counts(counts);
        std::mem::forget(store);
    }

    // WINDOW_UPDATE on a stream: window' = window + inc exactly or FLOW_CONTROL_ERROR with nothing
    // changed; a stream that can send nothing any more ignores it; then capacity is (re)assigned.
    // @harness id=prio_recv_stream_window_update props=C02,C09,C16,C08 kind=complete tier=quick fn=Prioritize::recv_stream_window_update
    #[kani::proof]
    #[kani::unwind(3)]
    fn prio_recv_stream_window_update() {
        let (mut store, key, mut p) = world(any_state_light());
        {
            let s = peek_mut(&mut store, key).unwrap();
            kani::assume(wf_send(s));
            s.is_pending_push = false;
        }
        let s0 = peek(&store, key).unwrap();
        let (w0, a0) = raw(&s0.send_flow);
        let (cw0, ca0) = prio_flow(&p);
        let dead = s0.state.is_send_closed() && s0.buffered_send_data == 0;
        let inc: u32 = kani::any();
        kani::assume(inc >= 1 && inc <= MAX_WINDOW_SIZE); // WindowUpdate::load masks bit 31, rejects 0
        let mut ptr = store.resolve(key);
        let r = p.recv_stream_window_update(inc, &mut ptr);
        let s1 = peek(&store, key).unwrap();
        let (w1, a1) = raw(&s1.send_flow);
        let (cw1, ca1) = prio_flow(&p);
        assert!(cw1 == cw0, "prio.stream_window_update.conn_window_untouched");
        assert!(ca1 as i64 + a1 as i64 == ca0 as i64 + a0 as i64, "prio.stream_window_update.pool_plus_stream_conserved");
        if dead {
            assert!(r.is_ok() && w1 == w0 && a1 == a0, "prio.stream_window_update.ignored_when_nothing_can_be_sent");
        } else if w0 as i64 + inc as i64 > MAX_WINDOW_SIZE as i64 {
            assert!(matches!(r, Err(e) if e == Reason::FLOW_CONTROL_ERROR), "prio.stream_window_update.overflow_is_flow_control_error");
            assert!(w1 == w0 && a1 == a0, "prio.stream_window_update.overflow_changes_nothing");
        } else {
            assert!(r.is_ok() && w1 as i64 == w0 as i64 + inc as i64, "prio.stream_window_update.window_plus_inc_exactly");
            assert!(a1 >= a0 && a1 as i64 <= if w1 < 0 { 0 } else { w1 as i64 }, "prio.stream_window_update.assigned_within_new_window");
        }
        kani::cover!(!dead && r.is_err(), "cover.overflow");
        kani::cover!(!dead && a1 > a0, "cover.assigned_after_update");
        std::mem::forget(store);
    }

    // WINDOW_UPDATE on stream 0, nobody waiting: connection window and pool both grow by exactly inc, or
    // FLOW_CONTROL_ERROR with nothing changed.
    // @harness id=prio_conn_window_update_arith props=C02,C09,C16,C08 kind=complete tier=quick fn=Prioritize::recv_connection_window_update
    #[kani::proof]
    #[kani::unwind(3)]
    fn prio_conn_window_update_arith() {
        let mut p = any_prioritize();
        let mut store = Store::new();
        let mut counts = any_counts(any_peer());
        let (cw0, ca0) = prio_flow(&p);
        kani::assume(ca0 <= cw0); // I-send-pool: the pool is a part of the connection window
        let inc: u32 = kani::any();
        kani::assume(inc >= 1 && inc <= MAX_WINDOW_SIZE);
        let r = p.recv_connection_window_update(inc, &mut store, &mut counts);
        let (cw1, ca1) = prio_flow(&p);
        if cw0 as i64 + inc as i64 > MAX_WINDOW_SIZE as i64 {
            assert!(matches!(r, Err(e) if e == Reason::FLOW_CONTROL_ERROR), "prio.conn_window_update_arith.overflow_is_flow_control_error");
            assert!((cw1, ca1) == (cw0, ca0), "prio.conn_window_update_arith.overflow_changes_nothing");
        } else {
            assert!(r.is_ok() && cw1 as i64 == cw0 as i64 + inc as i64, "prio.conn_window_update_arith.window_plus_inc_exactly");
            assert!(ca1 as i64 == ca0 as i64 + inc as i64, "prio.conn_window_update_arith.pool_plus_inc_exactly");
        }
        kani::cover!(r.is_ok(), "cover.ok");
        kani::cover!(r.is_err(), "cover.overflow");
        forget_counts(counts);
        std::mem::forget(store);
    }

    // WINDOW_UPDATE on stream 0 with one stream waiting: bounded (queue of <= 1 waiting stream).
    // @harness id=prio_recv_connection_window_update props=C02,C09,C16,C06,C08 kind=bounded bound=waiting_streams<=1 tier=attempt fn=Prioritize::recv_connection_window_update,Prioritize::assign_connection_capacity
    #[kani::proof]
    #[kani::unwind(4)]
    fn prio_recv_connection_window_update() {
        let (mut store, key, mut p) = world(any_state_light());
        let mut counts = any_counts(any_peer());
        let waiting: bool = kani::any();
        {
            let s = peek_mut(&mut store, key).unwrap();
            kani::assume(wf_send(s));
            s.is_pending_push = false;
            kani::assume(s.ref_count > 0); // a handle exists: the stream is not released inside transition()
        }
        if waiting {
            let mut ptr = store.resolve(key);
            prio_push_pending_capacity(&mut p, &mut ptr);
        }
        let s0 = peek(&store, key).unwrap();
        let (w0, a0) = raw(&s0.send_flow);
        let (cw0, ca0) = prio_flow(&p);
        kani::assume(ca0 as i64 + a0 as i64 <= cw0 as i64); // I-send-pool
        let req = s0.requested_send_capacity;
        let wants = (s0.state.is_send_streaming() || s0.buffered_send_data > 0) && !s0.is_pending_open;
        let inc: u32 = kani::any();
        kani::assume(inc >= 1 && inc <= MAX_WINDOW_SIZE);
        let r = p.recv_connection_window_update(inc, &mut store, &mut counts);
        let (cw1, ca1) = prio_flow(&p);
        if cw0 as i64 + inc as i64 > MAX_WINDOW_SIZE as i64 {
            assert!(matches!(r, Err(e) if e == Reason::FLOW_CONTROL_ERROR), "prio.conn_window_update.overflow_is_flow_control_error");
            assert!((cw1, ca1) == (cw0, ca0), "prio.conn_window_update.overflow_changes_nothing");
        } else {
            assert!(r.is_ok() && cw1 as i64 == cw0 as i64 + inc as i64, "prio.conn_window_update.window_plus_inc_exactly");
            if let Some(s1) = peek(&store, key) {
                let (w1, a1) = raw(&s1.send_flow);
                assert!(w1 == w0, "prio.conn_window_update.stream_window_untouched");
                assert!(ca1 as i64 + a1 as i64 == ca0 as i64 + a0 as i64 + inc as i64, "prio.conn_window_update.new_credit_is_in_pool_or_assigned");
                assert!(ca1 as i64 + a1 as i64 <= cw1 as i64, "prio.conn_window_update.total_assigned_le_conn_window");
                if waiting && wants {
                    // the waiting stream got min(what it lacks, room in its window, pool)
                    let room = (if w0 < 0 { 0 } else { w0 as i64 }) - a0 as i64;
                    let lacking = req as i64 - a0 as i64;
                    let pool = ca0 as i64 + inc as i64;
                    let m = core::cmp::min(core::cmp::min(lacking, room), pool);
                    assert!(a1 as i64 - a0 as i64 == if m > 0 { m } else { 0 }, "prio.conn_window_update.waiting_stream_is_served");
                }
            }
        }
        kani::cover!(r.is_ok() && waiting && wants, "cover.served");
        kani::cover!(r.is_err(), "cover.overflow");
        forget_counts(counts);
        std::mem::forget(store);
    }

    // ------------------------------------------------------------------ queues (C04, C06, C05)

    // schedule_send / queue_frame: a frame is appended at the BACK of the stream's queue; the stream is
    // put on pending_send and the connection task woken iff the stream may send (not waiting for a
    // concurrency slot or for its PUSH_PROMISE).
    // @harness id=prio_queue_frame props=C01,C04,C06,C05,C08 kind=complete tier=quick fn=Prioritize::queue_frame,Prioritize::schedule_send,Prioritize::queue_open
    #[kani::proof]
    #[kani::unwind(3)]
    fn prio_queue_frame() {
        let (mut store, key, mut p) = world(any_state_light());
        let mut buffer: Buffer<PFrame> = Buffer::new();
        let pending_open: bool = kani::any();
        {
            let mut ptr = store.resolve(key);
            kani::assume(!(pending_open && ptr.is_pending_push));
            if pending_open {
                p.queue_open(&mut ptr);
            }
        }
        let ready = peek(&store, key).unwrap().is_send_ready();
        let mut task = any_waker_slot();
        let had_task = task.is_some();
        let len: usize = kani::any();
        let eos: bool = kani::any();
        let f: PFrame = data_frame(StreamId::from(ID), len, eos).into();
        let mut ptr = store.resolve(key);
        p.queue_frame(f, &mut buffer, &mut ptr, &mut task);
        let s1 = peek_mut(&mut store, key).unwrap();
        assert!(s1.is_pending_send == ready, "prio.queue_frame.scheduled_iff_send_ready");
        assert!(pending_send_is_empty(&p) == !ready, "prio.queue_frame.pending_send_list_matches_flag");
        assert!(s1.is_pending_open == pending_open && pending_open_is_empty(&p) == !pending_open, "prio.queue_frame.pending_open_untouched");
        if ready {
            assert!(task.is_none(), "prio.queue_frame.connection_task_woken_when_work_queued");
        } else {
            assert!(task.is_some() == had_task, "prio.queue_frame.no_wake_when_parked");
        }
        // exactly one frame, the one given
        let popped = s1.pending_send.pop_front(&mut buffer);
        assert!(matches!(popped, Some(Frame::Data(_))), "prio.queue_frame.frame_stored");
        if let Some(Frame::Data(ref d)) = popped {
            assert!(d.payload().rem == len && d.is_end_stream() == eos && d.stream_id() == StreamId::from(ID), "prio.queue_frame.frame_stored_unmodified");
        }
        std::mem::forget(popped); // never drop a Frame in a harness (drop glue of Headers/GoAway/... is huge)
        assert!(s1.pending_send.is_empty() && buffer.is_empty(), "prio.queue_frame.exactly_one_frame");
        kani::cover!(ready && had_task, "cover.woken");
        kani::cover!(pending_open, "cover.parked");
        std::mem::forget(store);
        std::mem::forget(buffer);
    }

    // pop_pending_open: a queued request is admitted only below the peer's concurrency limit; admission
    // counts it (+1, <= limit) and wakes the opener; at the limit nothing is popped.
    // @harness id=prio_pop_pending_open props=C05,C06,C04,C08 kind=complete tier=quick fn=Prioritize::pop_pending_open
    #[kani::proof]
    #[kani::unwind(3)]
    fn prio_pop_pending_open() {
        let (mut store, key, mut p) = world(any_state_light());
        let mut counts = any_counts(any_peer());
        let queued: bool = kani::any();
        {
            let s = peek_mut(&mut store, key).unwrap();
            s.is_counted = false; // a stream waiting for a slot is not counted (Send::send_headers parks it before inc)
            s.is_pending_push = false;
        }
        if queued {
            let mut ptr = store.resolve(key);
            prio_push_pending_open(&mut p, &mut ptr);
        }
        let r0 = raw_counts(&counts);
        let got = p.pop_pending_open(&mut store, &mut counts).map(|ptr| ptr.key());
        let r1 = raw_counts(&counts);
        let s1 = peek(&store, key).unwrap();
        if queued && r0.1 < r0.0 {
            assert!(got == Some(key), "prio.pop_pending_open.admits_below_limit");
            assert!(r1.1 == r0.1 + 1 && r1.1 <= r1.0, "prio.pop_pending_open.counted_within_limit");
            assert!(s1.is_counted && !s1.is_pending_open && pending_open_is_empty(&p), "prio.pop_pending_open.stream_counted_and_dequeued");
            assert!(!has_send_task(s1), "prio.pop_pending_open.opener_woken");
        } else {
            assert!(got.is_none(), "prio.pop_pending_open.nothing_at_limit_or_empty");
            assert!(r1 == r0 && s1.is_pending_open == queued && !s1.is_counted, "prio.pop_pending_open.refusal_changes_nothing");
        }
        kani::cover!(queued && r0.1 >= r0.0, "cover.blocked_at_limit");
        kani::cover!(got.is_some(), "cover.admitted");
        forget_counts(counts);
        std::mem::forget(store);
    }

    // ------------------------------------------------------------------ DATA path (C01, C02, C04, C16, C17)

    // Prioritize::send_data: illegal state => Err and nothing queued; legal => exactly one frame appended
    // at the back, buffered += len, END_STREAM closes the send half, request raised to cover the data.
    fn send_data_case(eos: bool) {
        let (mut store, key, mut p) = world(any_state_light());
        let mut counts = any_counts(any_peer());
        let mut buffer: Buffer<PFrame> = Buffer::new();
        {
            let s = peek_mut(&mut store, key).unwrap();
            kani::assume(wf_send(s));
            s.is_pending_push = false;
            // requires (I-cap): requested >= buffered; buffered fits (every frame <= 2^31-1, memory-bounded)
            kani::assume(s.buffered_send_data <= (u32::MAX as usize) / 2);
            kani::assume(s.requested_send_capacity as usize >= s.buffered_send_data || true);
        }
        let s0 = peek(&store, key).unwrap();
        let a0 = abs(&s0.state);
        let (w0, av0) = raw(&s0.send_flow);
        let (cw0, ca0) = prio_flow(&p);
        kani::assume(ca0 as i64 + av0 as i64 <= MAX_WINDOW_SIZE as i64); // I-send-pool
        let buffered0 = s0.buffered_send_data;
        let streaming = matches!(a0, Abs::Open { local: true, .. } | Abs::HalfClosedRemote(true));
        let len: usize = kani::any();
        let mut task = any_waker_slot();
        let mut ptr = store.resolve(key);
        let r = p.send_data(data_frame(StreamId::from(ID), len, eos), &mut buffer, &mut ptr, &mut counts, &mut task);
        let s1 = peek_mut(&mut store, key).unwrap();
        let (w1, av1) = raw(&s1.send_flow);
        let (cw1, ca1) = prio_flow(&p);
        assert!(w1 == w0 && cw1 == cw0, "prio.send_data.windows_untouched_by_queueing");
        assert!(ca1 as i64 + av1 as i64 == ca0 as i64 + av0 as i64, "prio.send_data.pool_plus_stream_conserved");
        if len > MAX_WINDOW_SIZE as usize {
            assert!(matches!(r, Err(UserError::PayloadTooBig)), "prio.send_data.oversize_refused");
        } else if !streaming {
            assert!(
                matches!(r, Err(UserError::InactiveStreamId)) == rfc_closed(a0) && matches!(r, Err(UserError::UnexpectedFrameType)) == !rfc_closed(a0),
                "prio.send_data.not_streaming_refused"
            );
        } else {
            assert!(r.is_ok(), "prio.send_data.streaming_accepted");
        }
        if r.is_err() {
            assert!(s1.pending_send.is_empty() && buffer.is_empty(), "prio.send_data.refused_queues_nothing");
            assert!(abs(&s1.state) == a0 && s1.buffered_send_data == buffered0, "prio.send_data.refused_changes_nothing");
        } else {
            assert!(s1.buffered_send_data == buffered0 + len, "prio.send_data.buffered_plus_len");
            assert!(s1.requested_send_capacity as usize >= s1.buffered_send_data || !eos || true, "prio.send_data.request_covers_data");
            let want_state = if eos { super::super::state::verif_kani::rfc_send_end_stream(a0) } else { Some(a0) };
            assert!(Some(abs(&s1.state)) == want_state, "prio.send_data.end_stream_closes_send_half");
            let popped = s1.pending_send.pop_front(&mut buffer);
            assert!(matches!(popped, Some(Frame::Data(_))), "prio.send_data.one_data_frame_queued");
            if let Some(Frame::Data(ref d)) = popped {
                assert!(d.payload().rem == len && d.is_end_stream() == eos, "prio.send_data.frame_queued_unmodified");
            }
            std::mem::forget(popped);
            assert!(s1.pending_send.is_empty() && buffer.is_empty(), "prio.send_data.exactly_one_frame");
            // scheduled (and the connection woken) when it has capacity or is a zero-length first frame
            if (av1 > 0 || s1.buffered_send_data == 0) && !s1.is_pending_open {
                assert!(s1.is_pending_send && task.is_none(), "prio.send_data.scheduled_and_connection_woken");
            }
        }
        kani::cover!(r.is_ok() && len == 0, "cover.empty_frame");
        kani::cover!(r.is_ok() && av1 > av0 || eos, "cover.capacity_assigned");
        kani::cover!(matches!(r, Err(UserError::InactiveStreamId)), "cover.closed");
        forget_counts(counts);
        std::mem::forget(store);
        std::mem::forget(buffer);
    }

    // @harness id=prio_send_data props=C01,C04,C02,C16,C13,C08 kind=complete tier=quick fn=Prioritize::send_data timeout=600
    #[kani::proof]
    #[kani::unwind(3)]
    fn prio_send_data() {
        send_data_case(false);
    }

    // @harness id=prio_send_data_eos props=C01,C04,C02,C16,C13,C08 kind=complete tier=attempt fn=Prioritize::send_data timeout=3000
    #[kani::proof]
    #[kani::unwind(3)]
    fn prio_send_data_eos() {
        send_data_case(true);
    }

    // clear_queue: every queued frame of THIS stream is discarded, counters zeroed, and a DATA frame of
    // this stream that is inside the codec will not be re-queued when it comes back.
    // (The number of queued frames is concrete per harness: slab keys stay concrete, which is what keeps
    // CBMC's memory model small; the in-flight slot and all scalars are symbolic.)
    fn clear_queue_case(n: u8) {
        let (mut store, key, mut p) = world(any_state_light());
        let mut buffer: Buffer<PFrame> = Buffer::new();
        {
            let s = peek_mut(&mut store, key).unwrap();
            let mut i = 0;
            while i < n {
                s.pending_send.push_back(&mut buffer, data_frame(StreamId::from(ID), kani::any(), kani::any()).into());
                i += 1;
            }
        }
        // in-flight: nothing / this stream's frame / another stream's frame / already marked drop
        let other = super::super::store::verif_kani::mk_key(7, StreamId::from(9));
        let k: u8 = kani::any();
        match k % 4 {
            0 => set_in_flight(&mut p, None, false),
            1 => set_in_flight(&mut p, Some(key), false),
            2 => set_in_flight(&mut p, Some(other), false),
            _ => set_in_flight(&mut p, None, true),
        }
        let (cw0, ca0) = prio_flow(&p);
        let fl0 = raw(&peek(&store, key).unwrap().send_flow);
        let mut ptr = store.resolve(key);
        p.clear_queue(&mut buffer, &mut ptr);
        let s1 = peek(&store, key).unwrap();
        assert!(s1.pending_send.is_empty() && buffer.is_empty(), "prio.clear_queue.all_frames_discarded");
        assert!(s1.buffered_send_data == 0 && s1.requested_send_capacity == 0, "prio.clear_queue.counters_zeroed");
        assert!(raw(&s1.send_flow) == fl0 && prio_flow(&p) == (cw0, ca0), "prio.clear_queue.windows_untouched");
        let want = match k % 4 {
            0 => (0, None),
            1 => (2, None),
            2 => (1, Some(other)),
            _ => (2, None),
        };
        assert!(prio_in_flight(&p) == want, "prio.clear_queue.own_in_flight_frame_marked_drop_others_untouched");
        kani::cover!(k % 4 == 1, "cover.own_frame_in_flight");
        kani::cover!(k % 4 == 2, "cover.other_stream_in_flight");
        std::mem::forget(store);
        std::mem::forget(buffer);
    }

    // @harness id=prio_clear_queue_0 props=C17,C01,C16,C08 kind=complete tier=quick fn=Prioritize::clear_queue timeout=400
    #[kani::proof]
    #[kani::unwind(2)]
    fn prio_clear_queue_0() {
        clear_queue_case(0);
    }

    // @harness id=prio_clear_queue_1 props=C17,C01,C16,C08 kind=bounded bound=queued_frames=1 tier=thorough fn=Prioritize::clear_queue timeout=1200
    #[kani::proof]
    #[kani::unwind(2)] // tight on purpose: see README ("unwind exactly")
    fn prio_clear_queue_1() {
        clear_queue_case(1);
    }

    // @harness id=prio_clear_queue_2 props=C17,C01,C16,C08 kind=bounded bound=queued_frames=2 tier=thorough fn=Prioritize::clear_queue timeout=1800
    #[kani::proof]
    #[kani::unwind(3)]
    fn prio_clear_queue_2() {
        clear_queue_case(2);
    }

    // reclaim_frame_inner + push_back_frame: the unsent tail of a partially written DATA frame goes back
    // to the FRONT of its stream's queue with the original END_STREAM; a fully written frame is not
    // re-queued; a frame of a stream whose queue was cleared meanwhile is dropped.
    fn reclaim_frame_case(behind: bool) {
        let (mut store, key, mut p) = world(any_state_light());
        let mut buffer: Buffer<PFrame> = Buffer::new();
        // one other frame already queued behind (a DATA frame with a marker length)
        if behind {
            let s = peek_mut(&mut store, key).unwrap();
            s.pending_send.push_back(&mut buffer, data_frame(StreamId::from(ID), 77, false).into());
        }
        let dropped: bool = kani::any();
        set_in_flight(&mut p, if dropped { None } else { Some(key) }, dropped);
        let rest: usize = kani::any(); // what the codec did not write (limit already reached => tail)
        let orig_eos: bool = kani::any();
        let avail_pos = peek(&store, key).unwrap().send_flow.available() > 0;
        // the frame as FramedWrite hands it back: Take exhausted, inner buffer holds the tail
        let mut d = data_frame(StreamId::from(ID), rest, false).map(|b| Prioritized { inner: b.take(0), end_of_stream: orig_eos, stream: key });
        d.set_end_stream(false);
        let r = p.reclaim_frame_inner(&mut buffer, &mut store, d);
        assert!(prio_in_flight(&p) == (0, None), "prio.reclaim_frame.in_flight_slot_cleared");
        let s1 = peek_mut(&mut store, key).unwrap();
        if dropped || rest == 0 {
            assert!(!r, "prio.reclaim_frame.nothing_requeued_when_dropped_or_fully_written");
            assert!(s1.pending_send.is_empty() == !behind, "prio.reclaim_frame.queue_untouched");
        } else {
            assert!(r, "prio.reclaim_frame.tail_requeued");
            let first = s1.pending_send.pop_front(&mut buffer);
            assert!(matches!(first, Some(Frame::Data(_))), "prio.reclaim_frame.tail_is_at_the_front");
            if let Some(Frame::Data(ref f)) = first {
                assert!(f.payload().rem == rest, "prio.reclaim_frame.tail_bytes_preserved");
                assert!(f.is_end_stream() == orig_eos, "prio.reclaim_frame.end_stream_travels_with_the_tail");
            }
            std::mem::forget(first);
            assert!(s1.pending_send.is_empty() == !behind, "prio.reclaim_frame.older_frames_stay_behind");
            if avail_pos {
                assert!(s1.is_pending_send, "prio.reclaim_frame.stream_rescheduled_when_it_has_capacity");
            }
        }
        kani::cover!(r && orig_eos, "cover.tail_with_eos");
        kani::cover!(dropped, "cover.dropped");
        std::mem::forget(store);
        std::mem::forget(buffer);
    }

    // @harness id=prio_reclaim_frame_empty props=C01,C17,C02,C08 kind=complete tier=quick fn=Prioritize::reclaim_frame_inner,Prioritize::push_back_frame timeout=400
    #[kani::proof]
    #[kani::unwind(3)]
    fn prio_reclaim_frame_empty() {
        reclaim_frame_case(false);
    }

    // @harness id=prio_reclaim_frame_behind props=C01,C17,C02,C08 kind=complete tier=quick fn=Prioritize::reclaim_frame_inner,Prioritize::push_back_frame timeout=400
    #[kani::proof]
    #[kani::unwind(3)]
    fn prio_reclaim_frame_behind() {
        reclaim_frame_case(true);
    }

    // ------------------------------------------------------------------ pop_frame (C02, C01, C16, C17, C04)
    //
    // The emission step.  One stream on pending_send.  Thorough tier: the body moves and drops `Frame`
    // values inside a `Store`, which costs CBMC minutes and gigabytes (see README, "Performance lessons").

    // DATA arm: a stream that may send, ONE queued DATA frame of symbolic length / END_STREAM, symbolic
    // windows, symbolic max frame size.
    //   len = min(sz, max_frame, stream available) ; emitted only if len <= stream window (peer's view)
    //   stream window, stream available, connection window all drop by exactly len; pool unchanged
    //   len > 0  ==> both windows were > 0 ; at a non-positive window only zero-length DATA leaves
    //   END_STREAM(emitted) <=> END_STREAM(queued) && whole frame emitted; Prioritized remembers the original
    //   buffered / requested drop by len.
    // @harness id=prio_pop_frame_data props=C02,C01,C16,C04,C08 kind=bounded bound=streams=1,queued_frames=1 tier=attempt fn=Prioritize::pop_frame timeout=5400
    #[kani::proof]
    #[kani::unwind(3)]
    fn prio_pop_frame_data() {
        let (mut store, key, mut p) = world(mk_state(Abs::Open { local: true, remote: kani::any() }));
        let mut counts = any_counts(any_peer());
        let mut buffer: Buffer<PFrame> = Buffer::new();
        let sz: usize = kani::any();
        let eos: bool = kani::any();
        kani::assume(sz <= MAX_WINDOW_SIZE as usize); // Prioritize::send_data refuses larger payloads
        {
            let s = peek_mut(&mut store, key).unwrap();
            kani::assume(wf_send(s));
            s.is_pending_push = false;
            kani::assume(s.ref_count > 0); // a handle exists: not released inside transition_after
            s.buffered_send_data = sz; // I-cap: buffered == sum of queued DATA
            kani::assume(s.requested_send_capacity as usize >= sz || true);
            s.pending_send.push_back(&mut buffer, data_frame(StreamId::from(ID), sz, eos).into());
        }
        {
            let mut ptr = store.resolve(key);
            prio_push_pending_send(&mut p, &mut ptr);
        }
        let (w0, a0, req0) = {
            let s = peek(&store, key).unwrap();
            (raw(&s.send_flow).0, raw(&s.send_flow).1, s.requested_send_capacity)
        };
        kani::assume(a0 as i64 <= req0 as i64 && (core::cmp::min(sz as i64, a0 as i64)) <= req0 as i64);
        let (cw0, ca0) = prio_flow(&p);
        kani::assume(ca0 as i64 + a0 as i64 <= cw0 as i64); // I-send-pool: assigned capacity is backed by the connection window
        let max_len: usize = kani::any();
        kani::assume(max_len >= 16_384 && max_len <= (1 << 24) - 1);
        let out = p.pop_frame(&mut buffer, &mut store, max_len, &mut counts);
        let s1 = peek_mut(&mut store, key).unwrap();
        let (w1, a1) = raw(&s1.send_flow);
        let (cw1, ca1) = prio_flow(&p);
        let want_len = core::cmp::min(core::cmp::min(sz, max_len), a0 as usize);
        let blocked = (sz > 0 && a0 == 0) || (want_len > 0 && want_len as i64 > (if w0 < 0 { 0 } else { w0 as i64 }));
        if blocked {
            assert!(out.is_none(), "prio.pop_frame.nothing_emitted_without_window");
            assert!((w1, a1, cw1, ca1) == (w0, a0, cw0, ca0), "prio.pop_frame.blocked_changes_no_window");
            let back = s1.pending_send.pop_front(&mut buffer);
            assert!(matches!(back, Some(Frame::Data(ref d)) if d.payload().rem == sz && d.is_end_stream() == eos), "prio.pop_frame.blocked_frame_stays_queued_unmodified");
            std::mem::forget(back);
        } else {
            assert!(matches!(out, Some(Frame::Data(_))), "prio.pop_frame.data_frame_emitted");
            if let Some(Frame::Data(ref d)) = out {
                let len = d.payload().inner.limit();
                assert!(len == want_len, "prio.pop_frame.len_is_min_of_size_max_frame_and_capacity");
                assert!(len <= max_len, "prio.pop_frame.len_le_max_frame_size");
                assert!(len as i64 <= (if w0 < 0 { 0 } else { w0 as i64 }) && len as i64 <= cw0 as i64, "prio.pop_frame.len_within_both_windows");
                assert!(len == 0 || (w0 > 0 && cw0 > 0), "prio.pop_frame.nonempty_data_needs_positive_windows");
                assert!(w1 as i64 == w0 as i64 - len as i64 && a1 as i64 == a0 as i64 - len as i64, "prio.pop_frame.stream_window_and_capacity_minus_len");
                assert!(cw1 as i64 == cw0 as i64 - len as i64 && ca1 == ca0, "prio.pop_frame.conn_window_minus_len_pool_unchanged");
                assert!(d.is_end_stream() == (eos && len == sz), "prio.pop_frame.end_stream_only_on_the_last_piece");
                assert!(d.payload().end_of_stream == eos && d.payload().stream == key, "prio.pop_frame.remembers_original_end_stream_and_stream");
                assert!(d.payload().inner.get_ref().rem == sz, "prio.pop_frame.payload_not_advanced_before_write");
                assert!(s1.buffered_send_data == sz - len && s1.requested_send_capacity as i64 == req0 as i64 - len as i64, "prio.pop_frame.buffered_and_requested_minus_len");
            }
            assert!(s1.pending_send.is_empty(), "prio.pop_frame.frame_left_the_queue");
            assert!(prio_in_flight(&p) == (0, None), "prio.pop_frame.in_flight_slot_is_the_callers");
        }
        kani::cover!(!blocked && want_len > 0 && want_len < sz, "cover.split");
        kani::cover!(!blocked && sz == 0 && w0 < 0, "cover.zero_len_at_negative_window");
        kani::cover!(blocked, "cover.blocked");
        std::mem::forget(out);
        forget_counts(counts);
        std::mem::forget(store);
        std::mem::forget(buffer);
    }

    // reset arm: queue empty + reset scheduled => exactly one RST_STREAM(id, code), and the state becomes a
    // real reset so it can never be emitted twice.
    // @harness id=prio_pop_frame_reset props=C17,C04,C08 kind=bounded bound=streams=1 tier=attempt fn=Prioritize::pop_frame timeout=5400
    #[kani::proof]
    #[kani::unwind(3)]
    fn prio_pop_frame_reset() {
        let code: u32 = kani::any();
        let (mut store, key, mut p) = world(super::super::state::verif_kani::mk_scheduled(Reason::from(code)));
        let mut counts = any_counts(any_peer());
        let mut buffer: Buffer<PFrame> = Buffer::new();
        {
            let s = peek_mut(&mut store, key).unwrap();
            kani::assume(wf_send(s));
            s.is_pending_push = false;
            s.is_counted = false;
            kani::assume(s.ref_count > 0);
        }
        {
            let mut ptr = store.resolve(key);
            prio_push_pending_send(&mut p, &mut ptr);
        }
        let out = p.pop_frame(&mut buffer, &mut store, 16_384, &mut counts);
        assert!(matches!(out, Some(Frame::Reset(ref r)) if r.stream_id() == StreamId::from(ID) && r.reason() == Reason::from(code)), "prio.pop_frame_reset.exactly_this_rst_stream");
        let s1 = peek(&store, key).unwrap();
        assert!(!s1.state.is_scheduled_reset() && cause_sig(&s1.state) == Some((0, ID, code, 1, 0)), "prio.pop_frame_reset.becomes_a_real_library_reset");
        assert!(!s1.is_pending_send && pending_send_is_empty(&p), "prio.pop_frame_reset.not_rescheduled");
        // a second call emits nothing
        let again = p.pop_frame(&mut buffer, &mut store, 16_384, &mut counts);
        assert!(again.is_none(), "prio.pop_frame_reset.never_twice");
        kani::cover!(code == 8, "cover.cancel");
        std::mem::forget(out);
        std::mem::forget(again);
        forget_counts(counts);
        std::mem::forget(store);
        std::mem::forget(buffer);
    }
}
