//! Contracts for src/hpack/huffman/mod.rs — property C11 (Huffman decoding agrees with RFC 7541 §5.2 on
//! every input) and the Huffman part of C10 (encode / decode round trip).
//!
//! Oracle: `vk_ref_encode`, the textbook encoder of RFC 7541 §5.2 — concatenate the Appendix B codes of
//! the symbols, most significant bit first, then pad with the most significant bits of EOS (all ones) up
//! to the next octet boundary — driven by the real `ENCODE_TABLE` (Appendix B as (bit length, code)).
//! Because the code is prefix-free and complete (checked in `hpack_huff_table_wellformed`), an octet
//! string x is a valid Huffman string for exactly one symbol string s, namely when x == ref_encode(s):
//!   soundness     decode(x) == Ok(s)  =>  x == ref_encode(s)          (hpack_huff_decode_sound)
//!   completeness  decode(ref_encode(s)) == Ok(s)                      (hpack_huff_decode_complete)
//! Together: on every x of the bounded length, decode(x) is exactly what the RFC assigns, and it is an
//! error exactly when the RFC makes it one (EOS inside the string — it is not an octet, so no s has it —,
//! padding of 8 bits or more, padding that is not a prefix of EOS, truncated code).
#![allow(dead_code, unused_imports)]
use super::*;

/// RFC 7541 §5.2 encoder for `m <= 4` symbols: (code bits concatenated MSB-first, number of bits).
/// The bits are exact while the number of bits is <= 64 (callers only compare them when it is <= 57, so
/// that up to 7 padding bits still fit); beyond that the high bits are dropped but the count stays exact.
pub(crate) fn vk_ref_encode(s: &[u8; 4], m: usize) -> (u64, u32) {
    let mut acc: u64 = 0;
    let mut total: u32 = 0;
    let mut i = 0;
    while i < m {
        let (nbits, code) = ENCODE_TABLE[s[i] as usize];
        acc = (acc << nbits) | code;
        total += nbits as u32;
        i += 1;
    }
    (acc, total)
}

/// The `pad <= 7`-bit padding of §5.2 appended: `pad` ones (most significant bits of EOS).
pub(crate) fn vk_pad(acc: u64, pad: u32) -> u64 {
    (acc << pad) | ((1u64 << pad) - 1)
}

/// big-endian value of `x[..n]`, n <= 4
pub(crate) fn vk_be(x: &[u8; 4], n: usize) -> u64 {
    let mut v: u64 = 0;
    let mut i = 0;
    while i < n {
        v = (v << 8) | x[i] as u64;
        i += 1;
    }
    v
}

#[cfg(kani)]
mod proofs {
    use super::*;

    /// Stand-in for the private slow path `BytesMut::reserve_inner` (reallocation / copy-on-shared).  The
    /// harnesses hand `decode` / `encode` a buffer whose capacity (64) exceeds anything they can write for
    /// the bounded inputs, so the slow path is never needed; CBMC cannot see that and would explore it at
    /// every `put_u8`.  Sound pruning: if the slow path were reachable this panics and the harness FAILS.
    fn vk_no_realloc(_: &mut BytesMut, _: usize, _: bool) -> bool {
        panic!("BytesMut::reserve_inner reached although capacity was pre-allocated")
    }

    // Appendix B as shipped: lengths 5..=30, codes fit their length, EOS is 30 ones, no code is a prefix of
    // another one (two symbolic symbols = all 257^2 pairs), and a few anchors copied from the RFC text.
    // Loop-free: complete.
    // @harness id=hpack_huff_table_wellformed props=C11,C10 kind=complete tier=quick fn=ENCODE_TABLE
    #[kani::proof]
    fn hpack_huff_table_wellformed() {
        let i: usize = kani::any();
        let j: usize = kani::any();
        kani::assume(i < 257 && j < 257 && i != j);
        let (li, ci) = ENCODE_TABLE[i];
        let (lj, cj) = ENCODE_TABLE[j];
        assert!(5 <= li && li <= 30, "hpack.huffman_table.length_5_to_30");
        assert!(ci >> li == 0, "hpack.huffman_table.code_fits_length");
        assert!(li > lj || ci != cj >> (lj - if li > lj { 0 } else { li }), "hpack.huffman_table.prefix_free");
        assert!(ENCODE_TABLE[256] == (30, 0x3fff_ffff), "hpack.huffman_table.eos_is_30_ones");
        assert!(
            ENCODE_TABLE[b'0' as usize] == (5, 0x0)
                && ENCODE_TABLE[b'a' as usize] == (5, 0x3)
                && ENCODE_TABLE[b' ' as usize] == (6, 0x14)
                && ENCODE_TABLE[b'A' as usize] == (6, 0x21)
                && ENCODE_TABLE[b'#' as usize] == (12, 0xffa)
                && ENCODE_TABLE[0] == (13, 0x1ff8)
                && ENCODE_TABLE[10] == (30, 0x3fff_fffc)
                && ENCODE_TABLE[255] == (26, 0x3ff_ffee),
            "hpack.huffman_table.anchors_match_appendix_b"
        );
        kani::cover!(li == 30 && lj == 5, "cover.longest_and_shortest");
        kani::cover!(li == lj, "cover.same_length");
    }

    // Soundness, every input of <= max_n <= 3 octets: what `decode` accepts is a valid Huffman string and
    // the output is its RFC decoding; the only error is InvalidHuffmanCode.
    // Returns (is_err, n, first octet, symbols decoded) for the callers' covers.
    fn huff_sound_case(max_n: usize) -> (bool, usize, u8, usize) {
        let src: [u8; 4] = kani::any();
        let n: usize = kani::any();
        kani::assume(n <= max_n);
        let mut buf = BytesMut::with_capacity(64);
        let r = decode(&src[..n], &mut buf);
        let is_err = matches!(r, Err(DecoderError::InvalidHuffmanCode));
        assert!(r.is_ok() || is_err, "hpack.huffman_decode.only_error_is_invalid_huffman_code");
        let mut syms = 0;
        if let Ok(ref out) = r {
            let m = out.len();
            syms = m;
            // the shortest code has 5 bits
            assert!(m * 5 <= n * 8, "hpack.huffman_decode.no_more_symbols_than_bits_allow");
            let at = |i: usize| if i < m { out[i] } else { 0 };
            let s = [at(0), at(1), at(2), at(3)];
            let (acc, total) = vk_ref_encode(&s, if m <= 4 { m } else { 4 });
            let bits = 8 * n as u32;
            assert!(total <= bits && bits - total <= 7, "hpack.huffman_decode.padding_shorter_than_8_bits");
            let pad = if total <= bits && bits - total <= 7 { bits - total } else { 0 };
            assert!(vk_pad(acc, pad) == vk_be(&src, n), "hpack.huffman_decode.input_is_codes_of_output_plus_eos_prefix_padding");
        }
        std::mem::forget(r);
        std::mem::forget(buf);
        (is_err, n, src[0], syms)
    }

    // @harness id=hpack_huff_decode_sound_2 props=C11 kind=bounded bound=input<=2B tier=quick solver=cadical fn=decode
    #[kani::proof]
    #[kani::stub(bytes::BytesMut::reserve_inner, vk_no_realloc)]
    #[kani::unwind(5)]
    fn hpack_huff_decode_sound_2() {
        let (is_err, n, b0, syms) = huff_sound_case(2);
        kani::cover!(!is_err && n == 2 && syms == 3, "cover.three_symbols_in_two_octets");
        kani::cover!(is_err && n == 1 && b0 == 0xff, "cover.eight_bits_of_padding_refused");
        kani::cover!(is_err && n == 1 && b0 == 0x00, "cover.zero_padding_refused");
    }

    // @harness id=hpack_huff_decode_sound props=C11 kind=bounded bound=input<=3B tier=thorough solver=cadical timeout=900 fn=decode
    #[kani::proof]
    #[kani::stub(bytes::BytesMut::reserve_inner, vk_no_realloc)]
    #[kani::unwind(6)]
    fn hpack_huff_decode_sound() {
        let (is_err, n, _b0, syms) = huff_sound_case(3);
        kani::cover!(!is_err && n == 3 && syms == 4, "cover.four_symbols_in_three_octets");
        kani::cover!(!is_err && n == 3 && syms == 1, "cover.long_code");
        kani::cover!(is_err && n == 3, "cover.refused");
    }

    // Completeness: every string of <= 4 symbols whose RFC encoding has <= max_n <= 3 octets is decoded to
    // itself.  (Every valid input of <= 3 octets is such an encoding: <= 24 bits, >= 5 bits per symbol.)
    // Returns (symbols, octets, padding bits).
    fn huff_complete_case(max_n: u32) -> (usize, usize, u32) {
        let s: [u8; 4] = kani::any();
        let m: usize = kani::any();
        kani::assume(m <= 4);
        let (acc, total) = vk_ref_encode(&s, m);
        kani::assume(total <= 8 * max_n);
        let n = ((total + 7) / 8) as usize;
        let pad = 8 * n as u32 - total;
        let x = vk_pad(acc, pad);
        // big-endian octets of x, left-aligned at n octets
        let src = [
            (x >> (8 * (if n >= 1 { n - 1 } else { 0 }))) as u8,
            (x >> (8 * (if n >= 2 { n - 2 } else { 0 }))) as u8,
            (x >> (8 * (if n >= 3 { n - 3 } else { 0 }))) as u8,
        ];
        let mut buf = BytesMut::with_capacity(64);
        let r = decode(&src[..n], &mut buf);
        assert!(r.is_ok(), "hpack.huffman_decode.accepts_every_rfc_encoding");
        if let Ok(ref out) = r {
            assert!(out.len() == m, "hpack.huffman_decode.returns_all_symbols");
            let at = |i: usize| if i < out.len() { out[i] } else { 0 };
            assert!(
                (m < 1 || at(0) == s[0]) && (m < 2 || at(1) == s[1]) && (m < 3 || at(2) == s[2]) && (m < 4 || at(3) == s[3]),
                "hpack.huffman_decode.returns_the_encoded_symbols"
            );
        }
        std::mem::forget(r);
        std::mem::forget(buf);
        (m, n, pad)
    }

    // @harness id=hpack_huff_decode_complete_2 props=C11,C10 kind=bounded bound=input<=2B tier=quick solver=cadical fn=decode
    #[kani::proof]
    #[kani::stub(bytes::BytesMut::reserve_inner, vk_no_realloc)]
    #[kani::unwind(5)]
    fn hpack_huff_decode_complete_2() {
        let (m, n, pad) = huff_complete_case(2);
        kani::cover!(m == 3 && n == 2 && pad == 1, "cover.three_symbols_one_bit_of_padding");
        kani::cover!(pad == 6 && m == 1, "cover.ten_bit_code_six_bits_of_padding");
        kani::cover!(m == 0, "cover.empty");
    }

    // @harness id=hpack_huff_decode_complete props=C11,C10 kind=bounded bound=input<=3B tier=thorough solver=cadical timeout=900 fn=decode
    #[kani::proof]
    #[kani::stub(bytes::BytesMut::reserve_inner, vk_no_realloc)]
    #[kani::unwind(6)]
    fn hpack_huff_decode_complete() {
        let (m, n, pad) = huff_complete_case(3);
        kani::cover!(m == 4 && n == 3 && pad == 0, "cover.four_symbols_no_padding");
        kani::cover!(m == 1 && n == 3, "cover.long_code");
    }

    // The real encoder emits the RFC encoding (every string of <= 2 symbols: up to 60 bits), hence with
    // the two harnesses above decode(encode(s)) == s.
    // @harness id=hpack_huff_encode_is_rfc props=C10 kind=bounded bound=symbols<=2 tier=quick solver=cadical fn=encode
    #[kani::proof]
    #[kani::stub(bytes::BytesMut::reserve_inner, vk_no_realloc)]
    #[kani::unwind(6)]
    fn hpack_huff_encode_is_rfc() {
        let s: [u8; 4] = kani::any();
        let m: usize = kani::any();
        kani::assume(m <= 2);
        let mut dst = BytesMut::with_capacity(64);
        encode(&s[..m], &mut dst);
        let n = dst.len();
        let (acc, total) = vk_ref_encode(&s, m);
        let want_n = ((total + 7) / 8) as usize;
        assert!(n == want_n, "hpack.huffman_encode.length_is_bits_rounded_up");
        let pad = 8 * want_n as u32 - total;
        // total + pad <= 64 bits: compare as a big-endian number (unrolled read of <= 8 octets)
        let at = |i: usize| if i < n { dst[i] as u64 } else { 0 };
        let sh = |i: usize| if i < n { 8 * (n - 1 - i) as u32 } else { 0 };
        let got = (at(0) << sh(0)) | (at(1) << sh(1)) | (at(2) << sh(2)) | (at(3) << sh(3)) | (at(4) << sh(4)) | (at(5) << sh(5)) | (at(6) << sh(6)) | (at(7) << sh(7));
        assert!(n <= 8 && got == vk_pad(acc, pad), "hpack.huffman_encode.output_is_codes_plus_eos_prefix_padding");
        kani::cover!(m == 2 && n == 8, "cover.two_longest_codes");
        kani::cover!(m == 2 && n == 2 && pad == 6, "cover.two_shortest_codes");
        kani::cover!(m == 0 && n == 0, "cover.empty");
        std::mem::forget(dst);
    }

    // Thorough twin of hpack_huff_decode_sound with 4 octets: reaches the 30-bit codes, and EOS itself
    // (0xff 0xff 0xff 0xfc..0xff) which must be refused.
    // @harness id=hpack_huff_decode_sound_4 props=C11 kind=bounded bound=input==4B tier=thorough solver=cadical timeout=1500 fn=decode
    #[kani::proof]
    #[kani::stub(bytes::BytesMut::reserve_inner, vk_no_realloc)]
    #[kani::unwind(7)]
    fn hpack_huff_decode_sound_4() {
        let src: [u8; 4] = kani::any();
        let n: usize = 4;
        let mut buf = BytesMut::with_capacity(64);
        let r = decode(&src[..n], &mut buf);
        let is_err = matches!(r, Err(DecoderError::InvalidHuffmanCode));
        assert!(r.is_ok() || is_err, "hpack.huffman_decode4.only_error_is_invalid_huffman_code");
        if let Ok(ref out) = r {
            let m = out.len();
            assert!(m * 5 <= 32, "hpack.huffman_decode4.no_more_symbols_than_bits_allow");
            // <= 6 symbols of >= 5 bits; the reference encoder takes 4 at a time
            let at = |i: usize| if i < m { out[i] } else { 0 };
            let s1 = [at(0), at(1), at(2), at(3)];
            let s2 = [at(4), at(5), 0, 0];
            let (a1, t1) = vk_ref_encode(&s1, if m <= 4 { m } else { 4 });
            let (a2, t2) = vk_ref_encode(&s2, if m <= 4 { 0 } else { m - 4 });
            let total = t1 + t2;
            let acc = (a1 << (if t2 < 64 { t2 } else { 0 })) | a2;
            assert!(total <= 32 && 32 - total <= 7, "hpack.huffman_decode4.padding_shorter_than_8_bits");
            let pad = if total <= 32 && 32 - total <= 7 { 32 - total } else { 0 };
            assert!(vk_pad(acc, pad) == vk_be(&src, n), "hpack.huffman_decode4.input_is_codes_of_output_plus_eos_prefix_padding");
        }
        kani::cover!(is_err && src[0] == 0xff && src[1] == 0xff && src[2] == 0xff && src[3] >= 0xfc, "cover.eos_refused");
        kani::cover!(matches!(r, Ok(ref o) if o.len() == 1 && o[0] == 10), "cover.thirty_bit_code");
        kani::cover!(matches!(r, Ok(ref o) if o.len() == 6), "cover.six_symbols");
        std::mem::forget(r);
        std::mem::forget(buf);
    }
}
