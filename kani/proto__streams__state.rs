//! Contracts for src/proto/streams/state.rs — the per-stream state machine — against the RFC 9113 §5.1
//! automaton.  The oracle below (`Abs`, `rfc_*`) is written from the RFC figure and text, with h2's two
//! sub-states per direction (awaiting the opening HEADERS / streaming) made explicit; it is NOT derived
//! from the match arms in state.rs.  Every harness is loop-free over the full state x input space.
#![allow(dead_code, unused_imports)]
use super::*;
use crate::verif_kani::{any_initiator, any_proto_error, any_stream_id, ini, sig};

/// Abstract view of `State`.  `true` = that direction has seen its opening HEADERS ("Streaming").
#[derive(Clone, Copy, PartialEq, Eq, Debug)]
pub(crate) enum Abs {
    Idle,
    ReservedLocal,
    ReservedRemote,
    Open { local: bool, remote: bool },
    HalfClosedLocal(bool),  // we sent END_STREAM; payload = remote streaming?
    HalfClosedRemote(bool), // peer sent END_STREAM; payload = local streaming?
    ClosedEnd,              // both END_STREAMs
    ClosedErr,              // reset / connection error, receive half NOT cleanly ended
    ClosedErrAfterEnd,      // reset after the peer's END_STREAM had been received
    ClosedScheduled,        // library reset scheduled (RST_STREAM still to be sent)
}

fn p(x: Peer) -> bool {
    matches!(x, Streaming)
}
fn mkp(b: bool) -> Peer {
    if b {
        Streaming
    } else {
        AwaitingHeaders
    }
}

pub(crate) fn abs(s: &State) -> Abs {
    match s.inner {
        Idle => Abs::Idle,
        ReservedLocal => Abs::ReservedLocal,
        ReservedRemote => Abs::ReservedRemote,
        Open { local, remote } => Abs::Open { local: p(local), remote: p(remote) },
        HalfClosedLocal(r) => Abs::HalfClosedLocal(p(r)),
        HalfClosedRemote(l) => Abs::HalfClosedRemote(p(l)),
        Closed(Cause::EndStream) => Abs::ClosedEnd,
        Closed(Cause::Error(_)) => Abs::ClosedErr,
        Closed(Cause::ErrorAfterEndStream(_)) => Abs::ClosedErrAfterEnd,
        Closed(Cause::ScheduledLibraryReset(_)) => Abs::ClosedScheduled,
    }
}

/// The error / reason stored in a closed state: (kind, id, code, initiator, debug-len) as `sig`, or None.
pub(crate) fn cause_sig(s: &State) -> Option<(u8, u32, u32, u8, usize)> {
    match s.inner {
        Closed(Cause::Error(ref e)) | Closed(Cause::ErrorAfterEndStream(ref e)) => Some(sig(e)),
        Closed(Cause::ScheduledLibraryReset(r)) => Some((7, 0, r.into(), 1, 0)),
        _ => None,
    }
}

pub(crate) fn mk_state(a: Abs) -> State {
    State {
        inner: match a {
            Abs::Idle => Idle,
            Abs::ReservedLocal => ReservedLocal,
            Abs::ReservedRemote => ReservedRemote,
            Abs::Open { local, remote } => Open { local: mkp(local), remote: mkp(remote) },
            Abs::HalfClosedLocal(r) => HalfClosedLocal(mkp(r)),
            Abs::HalfClosedRemote(l) => HalfClosedRemote(mkp(l)),
            Abs::ClosedEnd => Closed(Cause::EndStream),
            Abs::ClosedErr => Closed(Cause::Error(Error::library_go_away(Reason::INTERNAL_ERROR))),
            Abs::ClosedErrAfterEnd => {
                Closed(Cause::ErrorAfterEndStream(Error::library_go_away(Reason::INTERNAL_ERROR)))
            }
            Abs::ClosedScheduled => Closed(Cause::ScheduledLibraryReset(Reason::CANCEL)),
        },
    }
}

pub(crate) fn mk_closed_err(e: Error, after_end: bool) -> State {
    State { inner: Closed(if after_end { Cause::ErrorAfterEndStream(e) } else { Cause::Error(e) }) }
}

pub(crate) fn mk_scheduled(r: Reason) -> State {
    State { inner: Closed(Cause::ScheduledLibraryReset(r)) }
}

/// State of shape `k % 10` (closed-with-error shapes carry `proto_error_shape(ek)`), sub-states and
/// payloads symbolic.  Concrete `k`/`ek` let CBMC prune; `any_state()` takes them symbolic.
#[cfg(kani)]
pub(crate) fn state_shape(k: u8, ek: u8) -> State {
    let a: bool = kani::any();
    let b: bool = kani::any();
    State {
        inner: match k % 10 {
            0 => Idle,
            1 => ReservedLocal,
            2 => ReservedRemote,
            3 => Open { local: mkp(a), remote: mkp(b) },
            4 => HalfClosedLocal(mkp(a)),
            5 => HalfClosedRemote(mkp(a)),
            6 => Closed(Cause::EndStream),
            7 => Closed(Cause::Error(crate::verif_kani::proto_error_shape(ek))),
            8 => Closed(Cause::ErrorAfterEndStream(crate::verif_kani::proto_error_shape(ek))),
            _ => Closed(Cause::ScheduledLibraryReset(Reason::from(kani::any::<u32>()))),
        },
    }
}

/// Any state: every shape, closed states with any error value (any id, any u32 code, any initiator).
#[cfg(kani)]
pub(crate) fn any_state() -> State {
    state_shape(kani::any(), kani::any())
}

/// Any state shape; closed-with-error shapes carry a `Reset` error (no `Bytes`/`String` inside, so
/// dropping the stream is cheap).  For harnesses where the error payload is irrelevant.
#[cfg(kani)]
pub(crate) fn any_state_light() -> State {
    let k: u8 = kani::any();
    let a: bool = kani::any();
    let b: bool = kani::any();
    State {
        inner: match k % 10 {
            0 => Idle,
            1 => ReservedLocal,
            2 => ReservedRemote,
            3 => Open { local: mkp(a), remote: mkp(b) },
            4 => HalfClosedLocal(mkp(a)),
            5 => HalfClosedRemote(mkp(a)),
            6 => Closed(Cause::EndStream),
            7 => Closed(Cause::Error(Error::Reset(StreamId::from(1), Reason::from(kani::any::<u32>()), crate::verif_kani::any_initiator()))),
            8 => Closed(Cause::ErrorAfterEndStream(Error::Reset(StreamId::from(1), Reason::from(kani::any::<u32>()), crate::verif_kani::any_initiator()))),
            _ => Closed(Cause::ScheduledLibraryReset(Reason::from(kani::any::<u32>()))),
        },
    }
}

/// Any state that is not closed.
#[cfg(kani)]
pub(crate) fn any_live_state() -> State {
    let s = any_state();
    kani::assume(!matches!(s.inner, Closed(_)));
    s
}

// ------------------------------------------------------------------ RFC 9113 §5.1 oracle

/// Peer's END_STREAM has been received (the receive half ended cleanly).
pub(crate) fn rfc_recv_ended(a: Abs) -> bool {
    matches!(a, Abs::HalfClosedRemote(_) | Abs::ClosedEnd | Abs::ClosedErrAfterEnd)
}
pub(crate) fn rfc_closed(a: Abs) -> bool {
    matches!(a, Abs::ClosedEnd | Abs::ClosedErr | Abs::ClosedErrAfterEnd | Abs::ClosedScheduled)
}
/// We may not send any more stream frames other than what §5.1 allows after END_STREAM / RST.
pub(crate) fn rfc_send_closed(a: Abs) -> bool {
    rfc_closed(a) || matches!(a, Abs::HalfClosedLocal(_) | Abs::ReservedRemote)
}

/// Receiving the opening HEADERS (or a 1xx HEADERS) of the peer's direction.  None = protocol error.
/// §5.1: idle --recv H--> open; reserved(remote) --recv H--> half-closed(local); a HEADERS that opens
/// the peer's direction is legal only while that direction has not been opened yet.  END_STREAM on it
/// ends the peer's direction at once.  §8.1: 1xx HEADERS do not open the direction.
pub(crate) fn rfc_recv_headers(a: Abs, eos: bool, informational: bool) -> Option<Abs> {
    let streaming = !informational;
    match a {
        Abs::Idle => Some(if eos { Abs::HalfClosedRemote(false) } else { Abs::Open { local: false, remote: streaming } }),
        Abs::ReservedRemote => Some(if eos {
            Abs::ClosedEnd
        } else if informational {
            Abs::ReservedRemote
        } else {
            Abs::HalfClosedLocal(true)
        }),
        Abs::Open { local, remote: false } => {
            Some(if eos { Abs::HalfClosedRemote(local) } else { Abs::Open { local, remote: streaming } })
        }
        Abs::HalfClosedLocal(false) => Some(if eos { Abs::ClosedEnd } else { Abs::HalfClosedLocal(streaming) }),
        _ => None,
    }
}

/// Receiving END_STREAM (on DATA or trailers).  §5.1: open -> half-closed(remote); half-closed(local) -> closed.
pub(crate) fn rfc_recv_end_stream(a: Abs) -> Option<Abs> {
    match a {
        Abs::Open { local, .. } => Some(Abs::HalfClosedRemote(local)),
        Abs::HalfClosedLocal(_) => Some(Abs::ClosedEnd),
        _ => None,
    }
}

/// Sending the opening HEADERS of our direction (request, response, or the HEADERS of a pushed response).
pub(crate) fn rfc_send_headers(a: Abs, eos: bool) -> Option<Abs> {
    match a {
        Abs::Idle => Some(if eos { Abs::HalfClosedLocal(false) } else { Abs::Open { local: true, remote: false } }),
        Abs::Open { local: false, remote } => {
            Some(if eos { Abs::HalfClosedLocal(remote) } else { Abs::Open { local: true, remote } })
        }
        Abs::HalfClosedRemote(false) | Abs::ReservedLocal => {
            Some(if eos { Abs::ClosedEnd } else { Abs::HalfClosedRemote(true) })
        }
        _ => None,
    }
}

/// Sending END_STREAM.  §5.1: open -> half-closed(local); half-closed(remote) -> closed.
pub(crate) fn rfc_send_end_stream(a: Abs) -> Option<Abs> {
    match a {
        Abs::Open { remote, .. } => Some(Abs::HalfClosedLocal(remote)),
        Abs::HalfClosedRemote(_) => Some(Abs::ClosedEnd),
        _ => None,
    }
}

pub(crate) fn is_goaway_protocol_error(e: &Error) -> bool {
    let pe: u32 = Reason::PROTOCOL_ERROR.into();
    sig(e) == (1, 0, pe, 1, 0)
}

/// Stub for `impl From<io::Error> for proto::Error` (it renders the inner error with `to_string()`, whose
/// formatting machinery is intractable for CBMC): keeps the kind, drops the message text.
#[cfg(kani)]
fn stub_error_from_io(src: io::Error) -> Error {
    Error::Io(src.kind(), None)
}

#[cfg(kani)]
mod proofs {
    use super::*;
    use crate::verif_kani::mk_headers;

    // ---- receive side (C09, C01): illegal => GoAway(PROTOCOL_ERROR) & state unchanged, legal => RFC successor

    // @harness id=st_recv_open props=C09,C01,C04,C08 kind=complete tier=quick fn=State::recv_open
    #[kani::proof]
    fn st_recv_open() {
        let mut s = any_state();
        let a0 = abs(&s);
        let c0 = cause_sig(&s);
        let eos: bool = kani::any();
        let info: bool = kani::any();
        let f = mk_headers(any_stream_id(), eos, info);
        let r = s.recv_open(&f);
        match rfc_recv_headers(a0, eos, info) {
            Some(next) => {
                assert!(r.is_ok(), "state.recv_open.legal_is_accepted");
                assert!(abs(&s) == next, "state.recv_open.legal_goes_to_rfc_successor");
                // "initial" = the stream was created by this frame (idle / reserved(remote))
                let init = matches!(a0, Abs::Idle | Abs::ReservedRemote);
                assert!(matches!(r, Ok(i) if i == init), "state.recv_open.initial_flag");
            }
            None => {
                assert!(r.is_err(), "state.recv_open.illegal_is_rejected");
                assert!(matches!(r, Err(ref e) if is_goaway_protocol_error(e)), "state.recv_open.illegal_is_conn_protocol_error");
                assert!(abs(&s) == a0 && cause_sig(&s) == c0, "state.recv_open.illegal_leaves_state");
            }
        }
        kani::cover!(a0 == Abs::Idle && eos, "cover.idle_eos");
        kani::cover!(matches!(a0, Abs::Open { remote: true, .. }), "cover.illegal_second_headers");
        kani::cover!(a0 == Abs::HalfClosedLocal(false) && info && !eos, "cover.informational");
        // dropping error-carrying values costs CBMC minutes (Bytes / io::Error drop glue); harness-side only
        std::mem::forget(r);
        std::mem::forget(s);
        std::mem::forget(f);
    }

    // @harness id=st_recv_close props=C09,C01,C08 kind=complete tier=quick fn=State::recv_close
    #[kani::proof]
    fn st_recv_close() {
        let mut s = any_state();
        let a0 = abs(&s);
        let c0 = cause_sig(&s);
        let r = s.recv_close();
        match rfc_recv_end_stream(a0) {
            Some(next) => {
                assert!(r.is_ok(), "state.recv_close.legal_is_accepted");
                assert!(abs(&s) == next, "state.recv_close.legal_goes_to_rfc_successor");
                assert!(s.is_recv_end_stream(), "state.recv_close.end_stream_recorded");
            }
            None => {
                assert!(matches!(r, Err(ref e) if is_goaway_protocol_error(e)), "state.recv_close.illegal_is_conn_protocol_error");
                assert!(abs(&s) == a0 && cause_sig(&s) == c0, "state.recv_close.illegal_leaves_state");
            }
        }
        kani::cover!(matches!(a0, Abs::Open { .. }), "cover.open");
        kani::cover!(a0 == Abs::ClosedEnd, "cover.closed_illegal");
        // dropping error-carrying values costs CBMC minutes (Bytes / io::Error drop glue); harness-side only
        std::mem::forget(r);
        std::mem::forget(s);
    }

    // @harness id=st_reserve_remote props=C09,C08 kind=complete tier=quick fn=State::reserve_remote
    #[kani::proof]
    fn st_reserve_remote() {
        let mut s = any_state();
        let a0 = abs(&s);
        let c0 = cause_sig(&s);
        let r = s.reserve_remote();
        if a0 == Abs::Idle {
            assert!(r.is_ok() && abs(&s) == Abs::ReservedRemote, "state.reserve_remote.idle_to_reserved");
        } else {
            assert!(matches!(r, Err(ref e) if is_goaway_protocol_error(e)), "state.reserve_remote.non_idle_is_conn_protocol_error");
            assert!(abs(&s) == a0 && cause_sig(&s) == c0, "state.reserve_remote.illegal_leaves_state");
        }
        kani::cover!(a0 == Abs::Idle, "cover.idle");
        kani::cover!(a0 != Abs::Idle, "cover.non_idle");
        // dropping error-carrying values costs CBMC minutes (Bytes / io::Error drop glue); harness-side only
        std::mem::forget(r);
        std::mem::forget(s);
    }

    // C17/C01/C07: a peer RST_STREAM is recorded with the exact code, origin remote; a stream whose
    // END_STREAM had already been received keeps reporting a clean end of the *receive* half.
    // @harness id=st_recv_reset props=C17,C09,C01,C07,C08 kind=complete tier=quick fn=State::recv_reset
    #[kani::proof]
    fn st_recv_reset() {
        let mut s = any_state();
        let a0 = abs(&s);
        let c0 = cause_sig(&s);
        let id = any_stream_id();
        let code: u32 = kani::any();
        let queued: bool = kani::any();
        s.recv_reset(frame::Reset::new(id, Reason::from(code)), queued);
        if rfc_closed(a0) && !queued {
            assert!(abs(&s) == a0 && cause_sig(&s) == c0, "state.recv_reset.closed_and_flushed_is_noop");
        } else {
            assert!(cause_sig(&s) == Some((0, id.into(), code, 2, 0)), "state.recv_reset.records_exact_code_remote");
            assert!(
                abs(&s) == if rfc_recv_ended(a0) { Abs::ClosedErrAfterEnd } else { Abs::ClosedErr },
                "state.recv_reset.keeps_clean_end_iff_end_stream_was_received"
            );
            assert!(s.is_remote_reset() && s.is_reset() && s.is_closed(), "state.recv_reset.observers");
        }
        // never turns an unfinished receive half into a clean end
        assert!(s.is_recv_end_stream() == rfc_recv_ended(a0), "state.recv_reset.never_invents_end_stream");
        kani::cover!(a0 == Abs::ClosedEnd && queued, "cover.closed_with_queue");
        kani::cover!(matches!(a0, Abs::Open { .. }) && code > 13, "cover.open_unknown_code");
        // dropping error-carrying values costs CBMC minutes (Bytes / io::Error drop glue); harness-side only
        std::mem::forget(s);
    }

    // C07: a connection error closes every stream that was not closed; the error is what the receive
    // API then reports; an already closed stream keeps its outcome (complete messages survive).
    // @harness id=st_handle_error props=C07,C17,C01,C08 kind=complete tier=quick fn=State::handle_error
    #[kani::proof]
    fn st_handle_error() {
        let mut s = any_state();
        let a0 = abs(&s);
        let c0 = cause_sig(&s);
        let err = any_proto_error();
        let esig = sig(&err);
        s.handle_error(&err);
        assert!(s.is_closed(), "state.handle_error.closed_afterwards");
        if rfc_closed(a0) {
            assert!(abs(&s) == a0 && cause_sig(&s) == c0, "state.handle_error.closed_keeps_outcome");
        } else {
            assert!(abs(&s) == Abs::ClosedErr, "state.handle_error.live_becomes_error");
            assert!(cause_sig(&s) == Some(esig), "state.handle_error.records_the_given_error");
            assert!(!s.is_recv_end_stream(), "state.handle_error.never_a_clean_end");
        }
        kani::cover!(!rfc_closed(a0), "cover.live_error");
        kani::cover!(a0 == Abs::ClosedEnd, "cover.already_closed");
        // dropping error-carrying values costs CBMC minutes (Bytes / io::Error drop glue); harness-side only
        std::mem::forget(s);
        std::mem::forget(err);
    }

    // C07: EOF (transport closed) — same contract with an I/O error as the cause.
    // @harness id=st_recv_eof props=C07,C01,C08 kind=complete tier=quick fn=State::recv_eof
    #[kani::proof]
    #[kani::stub(<crate::proto::Error as std::convert::From<std::io::Error>>::from, stub_error_from_io)]
    fn st_recv_eof() {
        let mut s = any_state();
        let a0 = abs(&s);
        let c0 = cause_sig(&s);
        s.recv_eof();
        assert!(s.is_closed(), "state.recv_eof.closed_afterwards");
        if rfc_closed(a0) {
            assert!(abs(&s) == a0 && cause_sig(&s) == c0, "state.recv_eof.closed_keeps_outcome");
        } else {
            assert!(abs(&s) == Abs::ClosedErr, "state.recv_eof.live_becomes_error");
            assert!(matches!(cause_sig(&s), Some((2, _, _, _, _))), "state.recv_eof.cause_is_io_error");
            assert!(!s.is_recv_end_stream(), "state.recv_eof.never_a_clean_end");
        }
        kani::cover!(!rfc_closed(a0), "cover.live_eof");
        kani::cover!(a0 == Abs::ClosedErrAfterEnd, "cover.already_closed");
        // dropping error-carrying values costs CBMC minutes (Bytes / io::Error drop glue); harness-side only
        std::mem::forget(s);
    }

    // ---- send side (C04): what h2 lets the application put on the wire

    // @harness id=st_send_open props=C04,C13,C08 kind=complete tier=quick fn=State::send_open
    #[kani::proof]
    fn st_send_open() {
        let mut s = any_state();
        let a0 = abs(&s);
        let c0 = cause_sig(&s);
        let eos: bool = kani::any();
        let r = s.send_open(eos);
        match rfc_send_headers(a0, eos) {
            Some(next) => {
                assert!(r.is_ok() && abs(&s) == next, "state.send_open.legal_goes_to_rfc_successor");
            }
            None => {
                assert!(matches!(r, Err(UserError::UnexpectedFrameType)), "state.send_open.illegal_is_refused");
                assert!(abs(&s) == a0 && cause_sig(&s) == c0, "state.send_open.illegal_leaves_state");
            }
        }
        kani::cover!(a0 == Abs::Idle && !eos, "cover.idle");
        kani::cover!(a0 == Abs::ReservedLocal && eos, "cover.reserved_local_eos");
        kani::cover!(rfc_send_closed(a0), "cover.send_closed_refused");
        // dropping error-carrying values costs CBMC minutes (Bytes / io::Error drop glue); harness-side only
        std::mem::forget(r);
        std::mem::forget(s);
    }

    // @harness id=st_send_close props=C04,C08 kind=complete tier=quick fn=State::send_close
    #[kani::proof]
    fn st_send_close() {
        let mut s = any_state();
        let a0 = abs(&s);
        // requires: callers (Send::send_data / send_trailers after their is_send_streaming check,
        // Send::send_headers after send_open) only close an open send half.
        kani::assume(matches!(a0, Abs::Open { .. } | Abs::HalfClosedRemote(_)));
        s.send_close();
        assert!(Some(abs(&s)) == rfc_send_end_stream(a0), "state.send_close.goes_to_rfc_successor");
        assert!(s.is_send_closed(), "state.send_close.send_half_closed");
        kani::cover!(matches!(a0, Abs::HalfClosedRemote(_)), "cover.to_closed");
        // dropping error-carrying values costs CBMC minutes (Bytes / io::Error drop glue); harness-side only
        std::mem::forget(s);
    }

    // @harness id=st_reserve_local props=C04,C08 kind=complete tier=quick fn=State::reserve_local
    #[kani::proof]
    fn st_reserve_local() {
        let mut s = any_state();
        let a0 = abs(&s);
        let c0 = cause_sig(&s);
        let r = s.reserve_local();
        if a0 == Abs::Idle {
            assert!(r.is_ok() && abs(&s) == Abs::ReservedLocal, "state.reserve_local.idle_to_reserved");
        } else {
            assert!(matches!(r, Err(UserError::UnexpectedFrameType)), "state.reserve_local.non_idle_refused");
            assert!(abs(&s) == a0 && cause_sig(&s) == c0, "state.reserve_local.illegal_leaves_state");
        }
        kani::cover!(a0 == Abs::Idle, "cover.idle");
        // dropping error-carrying values costs CBMC minutes (Bytes / io::Error drop glue); harness-side only
        std::mem::forget(r);
        std::mem::forget(s);
    }

    // C17: a local reset records exactly (id, code, initiator); a scheduled reset records the code.
    // @harness id=st_set_reset props=C17,C04,C08 kind=complete tier=quick fn=State::set_reset,State::set_scheduled_reset,State::get_scheduled_reset,State::is_scheduled_reset
    #[kani::proof]
    fn st_set_reset() {
        let mut s = any_state();
        let a0 = abs(&s);
        let id = any_stream_id();
        let code: u32 = kani::any();
        if kani::any() {
            let who = any_initiator();
            s.set_reset(id, Reason::from(code), who);
            assert!(abs(&s) == Abs::ClosedErr, "state.set_reset.closed_error");
            assert!(cause_sig(&s) == Some((0, id.into(), code, ini(who), 0)), "state.set_reset.records_exact");
            assert!(!s.is_scheduled_reset() && s.get_scheduled_reset().is_none(), "state.set_reset.not_scheduled");
            assert!(s.is_reset(), "state.set_reset.is_reset");
        } else {
            // requires (debug_assert in the body): not closed — callers check `is_closed()` first
            kani::assume(!rfc_closed(a0));
            s.set_scheduled_reset(Reason::from(code));
            assert!(abs(&s) == Abs::ClosedScheduled, "state.set_scheduled_reset.scheduled");
            assert!(s.get_scheduled_reset() == Some(Reason::from(code)), "state.set_scheduled_reset.records_exact_code");
            assert!(s.is_scheduled_reset() && s.is_reset() && s.is_local_error(), "state.set_scheduled_reset.observers");
        }
        kani::cover!(code > 13, "cover.unknown_code");
        // dropping error-carrying values costs CBMC minutes (Bytes / io::Error drop glue); harness-side only
        std::mem::forget(s);
    }

    // ---- observers, exact against the abstract view

    // @harness id=st_observers props=C04,C09,C01,C07,C17,C19,C05 kind=complete tier=quick fn=State::is_closed,State::is_send_closed,State::is_idle,State::is_recv_end_stream,State::is_recv_streaming,State::is_recv_headers,State::is_send_streaming,State::is_reset,State::is_remote_reset,State::is_local_error
    #[kani::proof]
    fn st_observers() {
        let s = any_state();
        let a = abs(&s);
        let c = cause_sig(&s);
        assert!(s.is_closed() == rfc_closed(a), "state.is_closed.exact");
        assert!(s.is_send_closed() == rfc_send_closed(a), "state.is_send_closed.exact");
        assert!(s.is_idle() == (a == Abs::Idle), "state.is_idle.exact");
        assert!(s.is_recv_end_stream() == rfc_recv_ended(a), "state.is_recv_end_stream.exact");
        assert!(
            s.is_recv_streaming() == matches!(a, Abs::Open { remote: true, .. } | Abs::HalfClosedLocal(true)),
            "state.is_recv_streaming.exact"
        );
        assert!(
            s.is_recv_headers()
                == matches!(a, Abs::Idle | Abs::ReservedRemote | Abs::Open { remote: false, .. } | Abs::HalfClosedLocal(false)),
            "state.is_recv_headers.exact"
        );
        assert!(s.is_recv_headers() == rfc_recv_headers(a, false, false).is_some(), "state.is_recv_headers.iff_headers_legal");
        assert!(
            s.is_send_streaming() == matches!(a, Abs::Open { local: true, .. } | Abs::HalfClosedRemote(true)),
            "state.is_send_streaming.exact"
        );
        assert!(s.is_reset() == (rfc_closed(a) && a != Abs::ClosedEnd), "state.is_reset.exact");
        let remote_reset = matches!(a, Abs::ClosedErr | Abs::ClosedErrAfterEnd) && matches!(c, Some((0, _, _, 2, _)));
        assert!(s.is_remote_reset() == remote_reset, "state.is_remote_reset.exact");
        let local_err = a == Abs::ClosedScheduled
            || (matches!(a, Abs::ClosedErr | Abs::ClosedErrAfterEnd) && matches!(c, Some((k, _, _, who, _)) if k == 2 || who != 2));
        assert!(s.is_local_error() == local_err, "state.is_local_error.exact");
        kani::cover!(s.is_remote_reset(), "cover.remote_reset");
        kani::cover!(s.is_recv_headers(), "cover.recv_headers");
        // dropping error-carrying values costs CBMC minutes (Bytes / io::Error drop glue); harness-side only
        std::mem::forget(s);
    }

    // C01/C07/C17: what the receive API reports.  Ok(false) = clean end, only when END_STREAM was
    // received (or there is no receive half: reserved(local)); a reset / error is reported as that error.
    // @harness id=st_ensure_recv_open props=C01,C07,C17,C09 kind=complete tier=quick fn=State::ensure_recv_open
    #[kani::proof]
    fn st_ensure_recv_open() {
        let s = any_state();
        let a = abs(&s);
        let c = cause_sig(&s);
        match s.ensure_recv_open() {
            Ok(false) => assert!(rfc_recv_ended(a) || a == Abs::ReservedLocal, "state.ensure_recv_open.clean_end_only_after_end_stream"),
            Ok(true) => assert!(!rfc_closed(a) && !rfc_recv_ended(a), "state.ensure_recv_open.open_only_if_live"),
            Err(e) => {
                assert!(a == Abs::ClosedErr || a == Abs::ClosedScheduled, "state.ensure_recv_open.err_only_if_reset");
                if a == Abs::ClosedErr {
                    assert!(Some(sig(&e)) == c, "state.ensure_recv_open.err_is_the_recorded_error");
                } else {
                    let code = c.unwrap().2;
                    assert!(sig(&e) == (1, 0, code, 1, 0), "state.ensure_recv_open.scheduled_reports_library_code");
                }
                std::mem::forget(e);
            }
        }
        kani::cover!(a == Abs::ClosedErr, "cover.err");
        kani::cover!(a == Abs::ClosedErrAfterEnd, "cover.err_after_end");
        // dropping error-carrying values costs CBMC minutes (Bytes / io::Error drop glue); harness-side only
        std::mem::forget(s);
    }

    // C17: poll_reset surfaces the peer's / our reset code exactly.
    // @harness id=st_ensure_reason props=C17,C07 kind=complete tier=quick fn=State::ensure_reason
    #[kani::proof]
    fn st_ensure_reason() {
        let s = any_state();
        let a = abs(&s);
        let c = cause_sig(&s);
        let awaiting: bool = kani::any();
        let mode = if awaiting { PollReset::AwaitingHeaders } else { PollReset::Streaming };
        let r = s.ensure_reason(mode);
        match c {
            Some((k, _, code, _, _)) if k == 0 || k == 1 || k == 7 => {
                assert!(matches!(r, Ok(Some(x)) if x == Reason::from(code)), "state.ensure_reason.reset_or_goaway_exact_code");
            }
            Some(_) => {
                assert!(matches!(r, Err(ref e) if e.is_io()), "state.ensure_reason.io_error_is_error");
            }
            None => {
                let send_streaming = matches!(a, Abs::Open { local: true, .. } | Abs::HalfClosedRemote(true));
                if send_streaming && awaiting {
                    assert!(r.is_err(), "state.ensure_reason.poll_reset_after_response_is_user_error");
                } else {
                    assert!(matches!(r, Ok(None)), "state.ensure_reason.not_reset_is_none");
                }
            }
        }
        kani::cover!(matches!(c, Some((0, _, code, 2, _)) if code > 13), "cover.remote_reset_unknown_code");
        kani::cover!(a == Abs::ClosedEnd, "cover.clean");
        // dropping error-carrying values costs CBMC minutes (Bytes / io::Error drop glue); harness-side only
        std::mem::forget(r);
        std::mem::forget(s);
    }

    // @harness id=st_ensure_reason_io props=C17,C07 kind=complete tier=quick fn=State::ensure_reason
    #[kani::proof]
    fn st_ensure_reason_io() {
        let s = mk_closed_err(Error::Io(io::ErrorKind::BrokenPipe, None), kani::any());
        let r = s.ensure_reason(PollReset::Streaming);
        assert!(matches!(r, Err(ref e) if e.is_io()), "state.ensure_reason.io_error_is_error");
        kani::cover!(r.is_err(), "cover.err");
        // dropping error-carrying values costs CBMC minutes (Bytes / io::Error drop glue); harness-side only
        std::mem::forget(r);
        std::mem::forget(s);
    }
}
