//! Harness-side HELPERS for src/hpack/encoder.rs needed by the connection-level SETTINGS contracts
//! (observer only; the hpack work package may add contracts to this file).
#![allow(dead_code, unused_imports)]
use super::*;

// ---- connlevel helpers begin
impl Encoder {
    /// The dynamic-table size update queued by `update_max_size` and not yet emitted, as
    /// `(min, max)`; `One(v)` is reported as `(v, v)`.
    pub(crate) fn vk_pending_size_update(&self) -> Option<(usize, usize)> {
        match self.size_update {
            None => None,
            Some(SizeUpdate::One(v)) => Some((v, v)),
            Some(SizeUpdate::Two(a, b)) => Some((a, b)),
        }
    }

    pub(crate) fn vk_max_allowed_size(&self) -> usize {
        self.max_allowed_size
    }

    /// The dynamic-table limit the encoder will be working under once the queued update (if any) is
    /// emitted with the next header block.
    pub(crate) fn vk_effective_max_size(&self) -> usize {
        match self.size_update {
            None => self.table.max_size(),
            Some(SizeUpdate::One(v)) => v,
            Some(SizeUpdate::Two(_, v)) => v,
        }
    }
}
// ---- connlevel helpers end
