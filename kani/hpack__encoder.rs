//! Contracts for src/hpack/encoder.rs — property C10 ("HPACK encoder and decoder stay in sync"):
//!   * `encode_int` emits the RFC 7541 §5.1 representation (checked with the §5.1 *decoder* pseudo code of
//!     hpack__decoder.rs) and the real `decode_int` reads it back, for every prefix size and every value
//!     below 2^32; the two implementation limits are compared;
//!   * `update_max_size` / `encode_size_updates` against RFC 7541 §4.2 / §6.3 (size-update signalling);
//!   * `encode_str` framing of short strings.
//! The robin-hood index (`Table::index`) and therefore `Encoder::encode` on non-empty header lists are
//! out of scope.
#![allow(dead_code, unused_imports)]
use super::*;

// ---- connlevel helpers begin
impl Encoder {
    /// The dynamic-table size update queued by `update_max_size` and not yet emitted, as
    /// `(min, max)`; `One(v)` is reported as `(v, v)`.
    pub(crate) fn vk_pending_size_update(&self) -> Option<(usize, usize)> {
        match self.size_update {
            None => None,
            Some(SizeUpdate::One(v)) => Some((v, v)),
            Some(SizeUpdate::Two(a, b)) => Some((a, b)),
        }
    }

    pub(crate) fn vk_max_allowed_size(&self) -> usize {
        self.max_allowed_size
    }

    /// The dynamic-table limit the encoder will be working under once the queued update (if any) is
    /// emitted with the next header block.
    pub(crate) fn vk_effective_max_size(&self) -> usize {
        match self.size_update {
            None => self.table.max_size(),
            Some(SizeUpdate::One(v)) => v,
            Some(SizeUpdate::Two(_, v)) => v,
        }
    }
}
// ---- connlevel helpers end


/// An encoder as `Encoder::new` builds it, with any table limit `t0 <= cap` (Encoder::new takes the min
/// with DEFAULT_MAX_ALLOWED_SIZE; update_max_size caps every later value) and any pending state.
/// The dynamic table is empty (capacity 0: no index allocated).
pub(crate) fn vk_mk_encoder(t0: usize, cap: usize, pending: Option<(usize, Option<usize>)>) -> Encoder {
    Encoder {
        table: Table::new(t0, 0),
        max_allowed_size: cap,
        size_update: match pending {
            None => None,
            Some((a, None)) => Some(SizeUpdate::One(a)),
            Some((a, Some(b))) => Some(SizeUpdate::Two(a, b)),
        },
        scratch: BytesMut::new(),
    }
}

/// The pending size updates as the list that the next header block must start with: (count, first, second).
pub(crate) fn vk_pending(e: &Encoder) -> (usize, usize, usize) {
    match e.size_update {
        None => (0, 0, 0),
        Some(SizeUpdate::One(v)) => (1, v, v),
        Some(SizeUpdate::Two(a, b)) => (2, a, b),
    }
}

#[cfg(kani)]
mod proofs {
    use super::*;
    use crate::hpack::decoder::verif_kani::{rfc_decode_int, vk_decode_int, RefInt, MAX_CONT_OCTETS};
    use crate::hpack::DecoderError;

    // C10, integers.  Every value < 2^32, every prefix size 1..=8 (call sites use 4, 5, 6, 7), every
    // first octet whose prefix bits are clear (call sites pass the pattern constants 0x80, 0x40, 0x20,
    // 0x10, 0).  Complete: the encoder loop runs ceil(32 / 7) = 5 times at most for a 32-bit value.
    //   * the output is the §5.1 representation: the RFC decoder returns the value and reads every octet;
    //   * the pattern bits of the first octet survive; a value below 2^N - 1 takes one octet (shortest form);
    //   * sync of the two implementation limits: h2's decoder accepts the output exactly when it has at most
    //     4 continuation octets, which is exactly value < 2^N - 1 + 2^28; above that the ENCODER still emits
    //     a (RFC-valid) 5-continuation-octet form that h2's own DECODER refuses with IntegerOverflow.
    // @harness id=hpack_enc_encode_int_roundtrip props=C10,C11 kind=complete tier=quick fn=encode_int,encode_int_one_byte,decode_int
    #[kani::proof]
    #[kani::unwind(8)]
    fn hpack_enc_encode_int_roundtrip() {
        let value: u32 = kani::any();
        let p: usize = kani::any();
        kani::assume(1 <= p && p <= 8);
        let mask: u8 = if p == 8 { 0xff } else { (1u8 << p) - 1 };
        let first: u8 = kani::any();
        kani::assume(first & mask == 0);
        let mut buf = [0u8; 8];
        let written = {
            let mut dst = &mut buf[..];
            encode_int(value as usize, p, first, &mut dst);
            8 - dst.len()
        };
        let (spec_done, spec_v, spec_c) = match rfc_decode_int(&buf, written, p as u8) {
            RefInt::Value(v, c) => (true, v, c),
            RefInt::NeedMore => (false, 0, 0),
        };
        assert!(spec_done && spec_v == value as u64, "hpack.encode_int.rfc_decoder_returns_the_value");
        assert!(spec_c == written, "hpack.encode_int.no_trailing_octets");
        assert!(buf[0] & !mask == first, "hpack.encode_int.pattern_bits_preserved");
        assert!((value < mask as u32) == (written == 1), "hpack.encode_int.one_octet_iff_below_prefix_max");
        assert!(1 <= written && written <= 6, "hpack.encode_int.at_most_5_continuation_octets_for_32_bits");

        let in_decoder_range = (value as u64) < mask as u64 + (1u64 << 28);
        assert!((written <= 1 + MAX_CONT_OCTETS) == in_decoder_range, "hpack.encode_int.within_decoder_octet_limit_iff_below_2_pow_28_plus_prefix");
        let (r, consumed) = vk_decode_int(&buf[..written], p as u8);
        assert!(!in_decoder_range || (r == Ok(value as usize) && consumed == written), "hpack.encode_int.h2_decoder_reads_it_back");
        assert!(in_decoder_range || r == Err(DecoderError::IntegerOverflow), "hpack.encode_int.above_range_h2_decoder_refuses");
        kani::cover!(written == 5 && p == 5, "cover.four_continuation_octets");
        kani::cover!(written == 6, "cover.beyond_decoder_limit");
        kani::cover!(written == 2 && value as u64 == mask as u64, "cover.exactly_prefix_max");
    }

    // RFC 7541 §4.2: "If the size is changed multiple times between two header blocks, the smallest
    // maximum table size that occurs in that interval MUST be signaled in a dynamic table size update.
    // The final maximum size is always signaled, resulting in at most two dynamic table size updates."
    // §6.3: every update <= the limit (here: the encoder's own cap `max_allowed_size`, 4096 outside tests;
    // Encoder::new and update_max_size take the min with it).
    // Any encoder right after a block (nothing pending, table limit t0 <= cap), then 1, 2 or 3 requests.
    // Loop-free over the full domain: complete.
    // @harness id=hpack_enc_update_max_size props=C10 kind=complete tier=quick fn=Encoder::update_max_size
    #[kani::proof]
    fn hpack_enc_update_max_size() {
        let cap: usize = kani::any();
        let t0: usize = kani::any();
        kani::assume(t0 <= cap);
        let mut enc = vk_mk_encoder(t0, cap, None);
        let v: [usize; 3] = kani::any();
        let k: u8 = kani::any();
        kani::assume(1 <= k && k <= 3);
        let c = [v[0].min(cap), v[1].min(cap), v[2].min(cap)];
        enc.update_max_size(v[0]);
        let mut smallest = c[0];
        let mut last = c[0];
        if k >= 2 {
            enc.update_max_size(v[1]);
            smallest = smallest.min(c[1]);
            last = c[1];
        }
        if k >= 3 {
            enc.update_max_size(v[2]);
            smallest = smallest.min(c[2]);
            last = c[2];
        }
        let (n, first, second) = vk_pending(&enc);
        // the final size is always signalled, last; nothing is signalled only if nothing has to be
        assert!(n == 0 || second == last, "hpack.update_max_size.final_size_signalled_last");
        assert!(n != 0 || (last == t0 && smallest >= t0), "hpack.update_max_size.nothing_pending_only_if_unchanged_and_never_reduced");
        // a reduction below the size in force at the last block is signalled, smallest value first
        assert!(smallest >= t0 || (n >= 1 && first == smallest), "hpack.update_max_size.smallest_intermediate_size_signalled_first");
        assert!(n != 2 || (first == smallest && first <= second), "hpack.update_max_size.two_updates_are_min_then_final");
        assert!(first <= cap && second <= cap, "hpack.update_max_size.never_above_cap");
        // nothing else moves before the next block
        assert!(enc.table.max_size() == t0 && enc.max_allowed_size == cap, "hpack.update_max_size.table_untouched_until_next_block");
        kani::cover!(n == 2 && k == 3 && first < t0 && second > t0, "cover.dip_then_raise_in_three_steps");
        kani::cover!(n == 1 && k == 2 && v[0] < v[1] && smallest > t0, "cover.raise_twice_is_one_update");
        kani::cover!(n == 0 && k == 2, "cover.back_to_current_without_dip");
        kani::cover!(v[2] > cap && n == 1 && k == 3, "cover.capped");
        std::mem::forget(enc);
    }

    // `Encoder::encode` starts every block with the pending updates (RFC 7541 §4.2 "at the beginning of the
    // first header block following the change"), each as a §6.3 representation (pattern 001, 5-bit prefix
    // integer), applies them to the encoder's own table in the same order and clears the pending state.
    // Any pending state of the given shape (0 none, 1 One(a), 2 Two(a, b)) that update_max_size can
    // produce (values <= cap = 4096, the production constant), empty header list, empty dynamic table.
    // Returns (octets written, a, b) for the callers' covers.
    fn enc_size_updates_case(shape: u8) -> (usize, usize, usize) {
        let cap = DEFAULT_MAX_ALLOWED_SIZE;
        let t0: usize = kani::any();
        let a: usize = kani::any();
        let b: usize = kani::any();
        kani::assume(t0 <= cap && a <= cap && b <= cap);
        let pending = match shape {
            0 => None,
            1 => Some((a, None)),
            _ => Some((a, Some(b))),
        };
        let mut enc = vk_mk_encoder(t0, cap, pending);
        let mut dst = BytesMut::with_capacity(16);
        enc.encode(std::iter::empty(), &mut dst);
        let n = dst.len();
        // copy out (unrolled: the harness unwind bound is the encoder's, not the copy's)
        let at = |i: usize| if i < n { dst[i] } else { 0 };
        let out = [at(0), at(1), at(2), at(3), at(4), at(5), at(6), at(7)];
        // decode what was written with the RFC integer decoder
        let (d1, v1, c1) = match rfc_decode_int(&out, n, 5) {
            RefInt::Value(v, c) => (true, v, c),
            RefInt::NeedMore => (false, 0, 0),
        };
        let (d2, v2, c2) = if d1 && c1 < n {
            match rfc_decode_int(&out[c1..], n - c1, 5) {
                RefInt::Value(v, c) => (true, v, c),
                RefInt::NeedMore => (false, 0, 0),
            }
        } else {
            (false, 0, 0)
        };
        assert!(n <= 6, "hpack.encode_size_updates.at_most_two_short_updates");
        assert!(shape != 0 || n == 0, "hpack.encode_size_updates.nothing_pending_nothing_emitted");
        assert!(shape != 1 || (d1 && c1 == n && out[0] >> 5 == 0b001 && v1 == a as u64), "hpack.encode_size_updates.one_update_emitted_as_rfc_6_3");
        assert!(shape != 2 || (d1 && d2 && c1 + c2 == n && out[0] >> 5 == 0b001 && out[if c1 < 8 { c1 } else { 0 }] >> 5 == 0b001 && v1 == a as u64 && v2 == b as u64), "hpack.encode_size_updates.two_updates_emitted_in_order");
        assert!(enc.size_update.is_none(), "hpack.encode_size_updates.pending_state_cleared");
        let want = if shape == 0 { t0 } else if shape == 1 { a } else { b };
        assert!(enc.table.max_size() == want, "hpack.encode_size_updates.own_table_limit_is_last_update");
        std::mem::forget(enc);
        std::mem::forget(dst);
        (n, a, b)
    }

    // @harness id=hpack_enc_encode_size_updates_0_1 props=C10 kind=bounded bound=empty_header_list,empty_table tier=quick fn=Encoder::encode,Encoder::encode_size_updates,encode_size_update
    #[kani::proof]
    #[kani::unwind(3)]
    fn hpack_enc_encode_size_updates_0_1() {
        let (n0, _, _) = enc_size_updates_case(0);
        let (n1, a, _) = enc_size_updates_case(1);
        kani::cover!(n0 == 0 && n1 == 3, "cover.three_octet_update");
        kani::cover!(n1 == 1 && a == 0, "cover.zero");
    }

    // @harness id=hpack_enc_encode_size_updates_2 props=C10 kind=bounded bound=empty_header_list,empty_table tier=quick fn=Encoder::encode,Encoder::encode_size_updates,encode_size_update
    #[kani::proof]
    #[kani::unwind(3)]
    fn hpack_enc_encode_size_updates_2() {
        let (n, a, b) = enc_size_updates_case(2);
        kani::cover!(n == 4 && a == 0 && b == 4096, "cover.zero_then_4096");
        kani::cover!(n == 2, "cover.two_one_octet_updates");
    }
}
