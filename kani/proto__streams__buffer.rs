//! Contracts for src/proto/streams/buffer.rs: `Deque` — the per-stream frame / event list threaded through a slab
//! shared by all streams of the connection.  The Verus units (vspec/inc/frames.inc `Deque`, stream_send.inc `DequeEv`)
//! ASSUME that a Deque is a FIFO sequence with `push_back`, `push_front`, `pop_front`; here that assumption is checked
//! on the real slab-backed list: bounded (every operation sequence up to the stated length), with a second deque
//! sharing the slab.  (C01: a stage that neither drops, duplicates nor reorders.)
#![allow(dead_code, unused_imports)]
use super::*;

#[cfg(kani)]
mod proofs {
    use super::*;

    /// The abstract view: a sequence of at most 4 values.
    struct Model {
        v: [u32; 4],
        n: usize,
    }
    impl Model {
        fn push_back(&mut self, x: u32) {
            self.v[self.n] = x;
            self.n += 1;
        }
        fn push_front(&mut self, x: u32) {
            let mut i = self.n;
            while i > 0 {
                self.v[i] = self.v[i - 1];
                i -= 1;
            }
            self.v[0] = x;
            self.n += 1;
        }
        fn pop_front(&mut self) -> Option<u32> {
            if self.n == 0 {
                return None;
            }
            let x = self.v[0];
            let mut i = 1;
            while i < self.n {
                self.v[i - 1] = self.v[i];
                i += 1;
            }
            self.n -= 1;
            Some(x)
        }
    }

    // Every sequence of LEN operations from {push_back(x_i), push_front(x_i), pop_front} (3^LEN sequences, enumerated
    // concretely so that slab keys stay concrete; the pushed values x_i are symbolic), on a deque A that shares its
    // slab with a deque B which receives one element before, one in the middle and one after: every pop of A returns
    // what the sequence model returns, `is_empty` agrees with the model after every step, and at the end draining A
    // and B gives exactly the model's content / B's three elements in order, leaving the slab empty (nothing leaked,
    // nothing shared).
    // @harness id=deque_fifo_seq2 props=C01,C08 kind=bounded bound=all_9_operation_sequences_of_length_2,_two_deques_on_one_slab tier=quick timeout=400 fn=Deque::push_back,Deque::push_front,Deque::pop_front,Deque::is_empty
    #[kani::proof]
    #[kani::unwind(10)]
    fn deque_fifo_seq2() {
        deque_fifo_case(2, 9);
    }

    // @harness id=deque_fifo_seq3 props=C01,C08 kind=bounded bound=all_27_operation_sequences_of_length_3,_two_deques_on_one_slab tier=thorough timeout=3000 fn=Deque::push_back,Deque::push_front,Deque::pop_front,Deque::is_empty
    #[kani::proof]
    #[kani::unwind(28)]
    fn deque_fifo_seq3() {
        deque_fifo_case(3, 27);
    }

    // @harness id=deque_fifo_seq4 props=C01,C08 kind=bounded bound=all_81_operation_sequences_of_length_4,_two_deques_on_one_slab tier=attempt timeout=3000 fn=Deque::push_back,Deque::push_front,Deque::pop_front,Deque::is_empty
    #[kani::proof]
    #[kani::unwind(82)]
    fn deque_fifo_seq4() {
        deque_fifo_case(4, 81);
    }

    fn deque_fifo_case(len: usize, n_codes: u32) {
        let x: [u32; 4] = kani::any();
        let y: [u32; 3] = kani::any();
        let mut code: u32 = 0;
        while code < n_codes {
            let mut buf: Buffer<u32> = Buffer::new();
            let mut a = Deque::new();
            let mut b = Deque::new();
            let mut m = Model { v: [0; 4], n: 0 };
            b.push_back(&mut buf, y[0]);
            let mut c = code;
            let mut i = 0;
            while i < len {
                if i == 1 {
                    b.push_back(&mut buf, y[1]);
                }
                match c % 3 {
                    0 => {
                        a.push_back(&mut buf, x[i]);
                        m.push_back(x[i]);
                    }
                    1 => {
                        a.push_front(&mut buf, x[i]);
                        m.push_front(x[i]);
                    }
                    _ => {
                        let got = a.pop_front(&mut buf);
                        assert!(got == m.pop_front(), "buffer.deque.pop_front_returns_the_front_of_the_sequence");
                    }
                }
                assert!(a.is_empty() == (m.n == 0), "buffer.deque.is_empty_iff_sequence_empty");
                c /= 3;
                i += 1;
            }
            b.push_back(&mut buf, y[2]);
            // drain
            let mut k = 0;
            while k < 5 {
                let got = a.pop_front(&mut buf);
                assert!(got == m.pop_front(), "buffer.deque.drain_returns_the_remaining_sequence_in_order");
                k += 1;
            }
            assert!(b.pop_front(&mut buf) == Some(y[0]) && b.pop_front(&mut buf) == Some(y[1]) && b.pop_front(&mut buf) == Some(y[2])
                && b.pop_front(&mut buf).is_none(), "buffer.deque.second_deque_on_the_same_slab_is_untouched");
            assert!(buf.is_empty(), "buffer.deque.slab_empty_after_draining_nothing_leaked");
            code += 1;
        }
        kani::cover!(x[0] != x[1], "cover.distinct_values");
    }
}
