//! Contracts for src/proto/settings.rs — the SETTINGS half of C14: "SETTINGS acknowledged exactly
//! once, in order; settings apply at the ACK; an acknowledgement that answers nothing is a connection
//! error" (RFC 9113 section 6.5.3).
//!
//! `Settings` is the product of two single-slot machines:
//!   local   ToSend(l) --poll_send--> WaitingAck(l) --recv ACK--> Synced --send_settings(l')--> ToSend(l')
//!           OUR values take effect (codec recv limits, streams.apply_local_settings) at the ACK only;
//!   remote  None --recv non-ACK s--> Some(s) --poll_send (codec ready)--> None
//!           exactly one SETTINGS+ACK is buffered for s, and s is applied right after (send limits of
//!           the codec, streams.apply_remote_settings) — not before, not twice.
//!
//! Precondition from the (NOT verified here) discipline of `Connection::poll2`, which runs
//! `poll_ready` (hence `poll_send`) to completion before it reads the next frame:
//!   I-single-slot  recv_settings(non-ACK) is called with `remote == None` (the `assert!` in the body).
//! `Streams` is the real one (`Streams::new` with a concrete config, no streams in the store), the
//! codec is the real one over `SymIo` (see proto__mod.rs).
#![allow(dead_code, unused_imports)]
use super::*;

/// local kind: 0 ToSend, 1 WaitingAck, 2 Synced
pub(crate) type SettingsSig = (u8, Option<frame::Settings>, Option<frame::Settings>, bool);

impl Settings {
    pub(crate) fn vk_sig(&self) -> SettingsSig {
        let (k, l) = match &self.local {
            Local::ToSend(l) => (0, Some(l.clone())),
            Local::WaitingAck(l) => (1, Some(l.clone())),
            Local::Synced => (2, None),
        };
        (k, l, self.remote.clone(), self.has_received_remote_initial_settings)
    }

    pub(crate) fn vk_mk(local_kind: u8, local: frame::Settings, remote: Option<frame::Settings>, seen_initial: bool) -> Settings {
        Settings {
            local: match local_kind {
                0 => Local::ToSend(local),
                1 => Local::WaitingAck(local),
                _ => Local::Synced,
            },
            remote,
            has_received_remote_initial_settings: seen_initial,
        }
    }
}

/// A non-ACK SETTINGS frame carrying exactly the parameters selected by `mask` (bit i = i-th
/// parameter in wire order) with ANY value the frame decoder / the builders let through:
/// ENABLE_PUSH and ENABLE_CONNECT_PROTOCOL in {0,1}, INITIAL_WINDOW_SIZE <= 2^31-1,
/// 2^14 <= MAX_FRAME_SIZE <= 2^24-1 (RFC 9113 section 6.5.2; `frame::Settings::load` rejects the rest).
#[cfg(kani)]
pub(crate) fn any_settings_frame_masked(mask: u8) -> frame::Settings {
    let mut s = frame::Settings::default();
    if mask & 1 != 0 {
        s.set_header_table_size(Some(kani::any()));
    }
    if mask & 2 != 0 {
        s.set_enable_push(kani::any());
    }
    if mask & 4 != 0 {
        s.set_max_concurrent_streams(Some(kani::any()));
    }
    if mask & 8 != 0 {
        let v: u32 = kani::any();
        kani::assume(v <= (1u32 << 31) - 1); // frame::settings::MAX_INITIAL_WINDOW_SIZE
        s.set_initial_window_size(Some(v));
    }
    if mask & 16 != 0 {
        let v: u32 = kani::any();
        kani::assume(frame::DEFAULT_MAX_FRAME_SIZE <= v && v <= frame::MAX_MAX_FRAME_SIZE);
        s.set_max_frame_size(Some(v));
    }
    if mask & 32 != 0 {
        s.set_max_header_list_size(Some(kani::any()));
    }
    if mask & 64 != 0 {
        s.set_enable_connect_protocol(Some(if kani::any() { 1 } else { 0 }));
    }
    s
}

/// ANY valid non-ACK SETTINGS frame (any subset of parameters).
#[cfg(kani)]
pub(crate) fn any_settings_frame() -> frame::Settings {
    any_settings_frame_masked(kani::any())
}

pub(crate) fn mk_streams_config() -> streams::Config {
    // the values Connection::new derives from a default client Builder
    streams::Config {
        initial_max_send_streams: 100,
        local_max_buffer_size: 1024 * 400,
        local_next_stream_id: 1.into(),
        local_push_enabled: false,
        extended_connect_protocol_enabled: false,
        local_reset_duration: std::time::Duration::from_secs(30),
        local_reset_max: 10,
        remote_reset_max: 20,
        remote_init_window_sz: frame::DEFAULT_INITIAL_WINDOW_SIZE,
        remote_max_initiated: None,
        local_max_error_reset_streams: Some(1024),
        data_frame_budget: 25600,
    }
}

#[cfg(kani)]
mod proofs {
    use super::*;
    use crate::proto::verif_kani::{be32, has_room, head9, mk_codec, snap, IoMode, SymIo};
    use crate::verif_kani::{noop_waker, sig, SymBuf};

    type TestStreams = Streams<SymBuf, crate::client::Peer>;

    fn is_protocol_error_from_library(e: &Error) -> bool {
        let (k, _, code, who, dlen) = sig(e);
        k == 1 && code == u32::from(Reason::PROTOCOL_ERROR) && who == 1 && dlen == 0
    }

    // send_settings: pure state machine, no codec.
    // @harness id=st_send_settings props=C14,C08 kind=complete tier=quick fn=Settings::send_settings,Settings::new
    #[kani::proof]
    fn st_send_settings() {
        let kind: u8 = kani::any();
        kani::assume(kind <= 2);
        let l0 = any_settings_frame();
        let remote = if kani::any() { Some(any_settings_frame()) } else { None };
        let mut s = Settings::vk_mk(kind, l0, remote, kani::any());
        let s0 = s.vk_sig();
        let f = any_settings_frame(); // requires !is_ack: every call site builds it from Settings::default()
        let fc = f.clone();
        let r = s.send_settings(f);
        let s1 = s.vk_sig();
        if kind == 2 {
            assert!(r.is_ok(), "st.send_settings.synced_ok");
            assert!(s1 == (0, Some(fc.clone()), s0.2.clone(), s0.3), "st.send_settings.synced_queues_exactly_this_frame_rest_untouched");
        } else {
            // one SETTINGS in flight at a time: the ACK that comes back is then unambiguous (in order)
            assert!(matches!(r, Err(UserError::SendSettingsWhilePending)), "st.send_settings.pending_is_user_error");
            assert!(s1 == s0, "st.send_settings.pending_changes_nothing");
        }
        let n = Settings::new(fc.clone());
        // the initial SETTINGS were written by the handshake: we wait for their ACK, nothing applied yet
        assert!(n.vk_sig() == (1, Some(fc), None, false), "st.new.waits_for_ack_of_initial_settings");
        kani::cover!(kind == 2, "cover.queued");
        kani::cover!(kind == 0, "cover.rejected_while_to_send");
        kani::cover!(kind == 1, "cover.rejected_while_waiting_ack");
    }

    // recv_settings, all three branches, real codec + real Streams.
    // @harness id=st_recv_settings props=C14,C08 kind=complete tier=quick fn=Settings::recv_settings
    #[kani::proof]
    #[kani::unwind(4)]
    fn st_recv_settings() {
        let kind: u8 = kani::any();
        kani::assume(kind <= 2);
        let l0 = any_settings_frame();
        let ack: bool = kani::any();
        // I-single-slot (see file comment): a non-ACK frame arrives only when `remote` is empty
        let remote = if ack && kani::any() { Some(any_settings_frame()) } else { None };
        let mut s = Settings::vk_mk(kind, l0.clone(), remote, kani::any());
        let s0 = s.vk_sig();
        let mut codec: Codec<SymIo, SymBuf> = mk_codec(IoMode::Fail, 23);
        let mut streams = TestStreams::new(mk_streams_config());
        let c0 = snap(&codec);
        let t0 = streams.vk_settings_snap();
        let frame = if ack { frame::Settings::ack() } else { any_settings_frame() };
        let fc = frame.clone();

        let r = s.recv_settings(frame, &mut codec, &mut streams);

        let s1 = s.vk_sig();
        let c1 = snap(&codec);
        let t1 = streams.vk_settings_snap();
        // receiving never writes
        assert!(c1.buffered == c0.buffered && c1.written == 0 && !c1.has_next, "st.recv.buffers_nothing");
        // ... and never touches what we may SEND (the peer's limits)
        assert!(c1.max_send_frame == c0.max_send_frame && c1.send_table_update == c0.send_table_update, "st.recv.send_side_of_codec_untouched");
        assert!(t1.0 == t0.0 && t1.3 == t0.3 && t1.4 == t0.4, "st.recv.send_side_of_streams_untouched");
        if !ack {
            // stored, NOT yet applied: it takes effect when its ACK is buffered (poll_send)
            assert!(r.is_ok(), "st.recv.non_ack_ok");
            assert!(s1 == (s0.0, s0.1.clone(), Some(fc), s0.3), "st.recv.non_ack_stored_rest_untouched");
            assert!(c1 == c0 && t1 == t0, "st.recv.non_ack_not_yet_applied");
        } else if kind == 1 {
            // the ACK answers our outstanding SETTINGS: they apply now, and only what they name
            assert!(r.is_ok(), "st.recv.ack_ok");
            assert!(s1 == (2, None, s0.2.clone(), s0.3), "st.recv.ack_synced_rest_untouched");
            assert!(c1.max_recv_frame == l0.max_frame_size().map_or(c0.max_recv_frame, |v| v as usize), "st.recv.ack_applies_max_frame_size");
            assert!(
                c1.max_recv_header_list == l0.max_header_list_size().map_or(c0.max_recv_header_list, |v| v as usize),
                "st.recv.ack_applies_max_header_list_size"
            );
            assert!(c1.recv_table_update == l0.header_table_size().map(|v| v as usize), "st.recv.ack_applies_header_table_size");
            assert!(t1.2 == l0.initial_window_size().unwrap_or(t0.2), "st.recv.ack_applies_initial_window_size_to_streams");
            assert!(t1.1 == t0.1, "st.recv.ack_max_recv_streams_untouched");
        } else {
            // an ACK that answers nothing: connection error PROTOCOL_ERROR, nothing changes
            assert!(matches!(r, Err(ref e) if is_protocol_error_from_library(e)), "st.recv.stray_ack_is_protocol_error");
            assert!(s1 == s0, "st.recv.stray_ack_state_unchanged");
            assert!(c1 == c0 && t1 == t0, "st.recv.stray_ack_applies_nothing");
        }
        kani::cover!(ack && kind == 1 && l0.max_frame_size().is_some() && l0.initial_window_size().is_some(), "cover.ack_applies");
        kani::cover!(ack && kind == 2, "cover.stray_ack_synced");
        kani::cover!(ack && kind == 0, "cover.stray_ack_to_send");
        kani::cover!(!ack && kind == 1, "cover.stored_while_waiting_ack");
        std::mem::forget(r);
        std::mem::forget(codec);
        std::mem::forget(streams);
    }

    // ---- poll_send over the real codec on the symbolic transport + the real Streams.
    // Values are symbolic; which slots are occupied, which parameters the LOCAL frame carries (it is
    // encoded, and a symbolic length defeats CBMC's constant propagation through BytesMut), the buffer
    // fill and the transport's answer are enumerated by calling the body once per case => kind=bounded.
    // The stub replaces `From<io::Error> for proto::Error` (see proto__mod.rs; assumption: the
    // io::Error has no custom payload — true for SymIo and for the codec's own WriteZero).

    fn param_at(fr: &[u8], off: &mut usize, id: u8, v: Option<u32>) -> bool {
        match v {
            None => true,
            Some(v) => {
                let o = *off;
                *off += 6;
                fr.len() >= o + 6 && fr[o] == 0 && fr[o + 1] == id && be32(&fr[o + 2..]) == v
            }
        }
    }

    /// `fr` is exactly one SETTINGS frame without ACK (RFC 9113 section 6.5: type 0x4, stream 0, one
    /// 6-byte (id, value) entry per parameter) carrying exactly the parameters of `l`, in id order.
    fn is_settings_frame(fr: &[u8], l: &frame::Settings) -> bool {
        let mut off = 9;
        let ok = param_at(fr, &mut off, 1, l.header_table_size())
            && param_at(fr, &mut off, 2, l.is_push_enabled().map(|b| b as u32))
            && param_at(fr, &mut off, 3, l.max_concurrent_streams())
            && param_at(fr, &mut off, 4, l.initial_window_size())
            && param_at(fr, &mut off, 5, l.max_frame_size())
            && param_at(fr, &mut off, 6, l.max_header_list_size())
            && param_at(fr, &mut off, 8, l.is_extended_connect_protocol_enabled().map(|b| b as u32));
        ok && fr.len() == off && head9(fr) == (off - 9, 4, 0, 0)
    }

    /// `fr` is exactly one SETTINGS frame with ACK: empty payload, flag 0x1, stream 0.
    fn is_settings_ack(fr: &[u8]) -> bool {
        fr.len() == 9 && head9(fr) == (0, 4, 1, 0)
    }

    /// What applying the peer's frame `s` must have done, given the state before (c0/t0/eff0) and
    /// after; `first` = no SETTINGS of the peer had been applied before.
    fn remote_applied(
        s: &frame::Settings,
        first: bool,
        c0: &crate::proto::verif_kani::CodecSnap,
        c1: &crate::proto::verif_kani::CodecSnap,
        eff: (usize, usize, usize),
        t0: &(usize, usize, u32, u32, bool, bool),
        t1: &(usize, usize, u32, u32, bool, bool),
    ) -> bool {
        let (eff0, eff1, cap) = eff;
        // codec: the peer's limits govern what we send
        c1.max_send_frame == s.max_frame_size().map_or(c0.max_send_frame, |v| v as usize)
            && eff1 == s.header_table_size().map_or(eff0, |v| (v as usize).min(cap))
            // streams: concurrency (RFC 9113 6.5.2: initially unlimited), initial window, extended CONNECT
            && t1.0 == match s.max_concurrent_streams() {
                Some(v) => v as usize,
                None if first => usize::MAX,
                None => t0.0,
            }
            && t1.3 == s.initial_window_size().unwrap_or(t0.3)
            && t1.4 == s.is_extended_connect_protocol_enabled().unwrap_or(t0.4)
            // nothing of OUR (receive-side) limits moves
            && c1.max_recv_frame == c0.max_recv_frame
            && c1.max_recv_header_list == c0.max_recv_header_list
            && c1.recv_table_update == c0.recv_table_update
            && t1.1 == t0.1
            && t1.2 == t0.2
    }

    // Exactly-once is compositional: after the ACK was buffered the slot is empty
    // (st_poll_send_ack_*), and with an empty slot no ACK is ever buffered (st_poll_send_local_room,
    // st_poll_send_blocked).
    //
    // Shapes: `rmask` / `lmask` say which parameters the peer's stored frame / our queued frame carry
    // (bit i = i-th parameter in wire order: 1 HEADER_TABLE_SIZE, 2 ENABLE_PUSH, 4 MAX_CONCURRENT_STREAMS,
    // 8 INITIAL_WINDOW_SIZE, 16 MAX_FRAME_SIZE, 32 MAX_HEADER_LIST_SIZE, 64 ENABLE_CONNECT_PROTOCOL).
    // The peer's frame never carries INITIAL_WINDOW_SIZE here: `Send::apply_remote_settings` then walks
    // the store and CBMC enters recv_stream_window_update / Prioritize even for an empty store (the
    // emptiness of a store behind Arc<Mutex<..>> is not constant-propagated): > 150 s for
    // `apply_remote_settings` alone with one concrete value, symex unfinished after 1300 s for
    // poll_send.  That step belongs to the streams / flow-control contracts (C02/C03).

    /// Common pre-state: returns (settings, codec, streams).
    fn mk_all(kind: u8, l0: &frame::Settings, remote: Option<&frame::Settings>, seen0: bool, mode: IoMode, fill: usize) -> (Settings, Codec<SymIo, SymBuf>, TestStreams) {
        (
            Settings::vk_mk(kind, l0.clone(), remote.cloned(), seen0),
            mk_codec(mode, fill),
            TestStreams::new(mk_streams_config()),
        )
    }

    // The owed ACK, buffer has room, our side idle (WaitingAck | Synced).
    // @harness id=st_poll_send_ack_room props=C14,C08 kind=bounded bound=write_buffer_fill_23_of_1200,remote_frame_shape_in_{empty,max_concurrent_streams,all_but_initial_window_size} tier=quick fn=Settings::poll_send,Settings::mark_remote_initial_settings_as_received
    #[kani::proof]
    #[kani::unwind(3)]
    #[kani::stub(<crate::proto::Error as std::convert::From<std::io::Error>>::from, crate::proto::verif_kani::io_error_to_proto_error_stub)]
    fn st_poll_send_ack_room() {
        const FILL: usize = 23;
        fn body(rmask: u8, kind: u8) {
            let l0 = any_settings_frame_masked(0x08);
            let rs = any_settings_frame_masked(rmask);
            let seen0: bool = kani::any();
            let (mut s, mut codec, mut streams) = mk_all(kind, &l0, Some(&rs), seen0, IoMode::Fail, FILL);
            let s0 = s.vk_sig();
            let c0 = snap(&codec);
            let t0 = streams.vk_settings_snap();
            let eff0 = codec.vk_send_table_effective_max();
            let w = noop_waker();
            let mut cx = Context::from_waker(&w);

            let r = s.poll_send(&mut cx, &mut codec, &mut streams);

            let s1 = s.vk_sig();
            let c1 = snap(&codec);
            let t1 = streams.vk_settings_snap();
            let eff = (eff0, codec.vk_send_table_effective_max(), codec.vk_send_table_max_allowed());
            assert!(matches!(r, Poll::Ready(Ok(()))), "st.poll_send.ack.ready_ok");
            // exactly one ACK and nothing else, directly behind the earlier bytes
            let b = codec.vk_buffered();
            assert!(b.len() == FILL + 9 && is_settings_ack(&b[FILL..]), "st.poll_send.ack.exactly_one_ack_frame_buffered");
            assert!(b[0] == 0xEE && b[FILL - 1] == 0xEE && codec.vk_io().writes == 0, "st.poll_send.ack.earlier_frames_untouched_no_io");
            // the slot is empty (the ACK is no longer owed), our side is untouched
            assert!(s1 == (s0.0, s0.1.clone(), None, true), "st.poll_send.ack.remote_slot_emptied_initial_seen_local_untouched");
            // ... and the peer's values are in force exactly now
            assert!(remote_applied(&rs, !seen0, &c0, &c1, eff, &t0, &t1), "st.poll_send.ack.remote_settings_applied_exactly");
            std::mem::forget(r);
            std::mem::forget(codec);
            std::mem::forget(streams);
        }
        let k: u8 = kani::any();
        match k % 3 {
            0 => body(0x00, 2),
            1 => body(0x04, 1),
            _ => body(0x77, 2),
        }
        kani::cover!(k % 3 == 0, "cover.empty_settings_acked");
        kani::cover!(k % 3 == 2, "cover.full_settings_applied");
    }

    // The owed ACK AND our own queued SETTINGS: ACK first, then our frame, which now awaits its ACK.
    // lmask 8 = Connection::set_initial_window_size; lmask 64+16 = Connection::set_enable_connect_protocol
    // plus a MAX_FRAME_SIZE (which must NOT reach the codec's receive side before the peer ACKs it).
    // @harness id=st_poll_send_ack_and_local_room props=C14,C08 kind=bounded bound=write_buffer_fill_23_of_1200,remote_frame_shape_in_{max_concurrent_streams,all_but_initial_window_size},local_frame_shape_in_{initial_window_size,max_frame_size+enable_connect_protocol} tier=quick timeout=300 fn=Settings::poll_send
    #[kani::proof]
    #[kani::unwind(3)]
    #[kani::stub(<crate::proto::Error as std::convert::From<std::io::Error>>::from, crate::proto::verif_kani::io_error_to_proto_error_stub)]
    fn st_poll_send_ack_and_local_room() {
        const FILL: usize = 23;
        fn body(rmask: u8, lmask: u8) {
            let l0 = any_settings_frame_masked(lmask);
            let rs = any_settings_frame_masked(rmask);
            let seen0: bool = kani::any();
            let (mut s, mut codec, mut streams) = mk_all(0, &l0, Some(&rs), seen0, IoMode::Fail, FILL);
            let c0 = snap(&codec);
            let t0 = streams.vk_settings_snap();
            let eff0 = codec.vk_send_table_effective_max();
            let w = noop_waker();
            let mut cx = Context::from_waker(&w);

            let r = s.poll_send(&mut cx, &mut codec, &mut streams);

            let s1 = s.vk_sig();
            let c1 = snap(&codec);
            let t1 = streams.vk_settings_snap();
            let eff = (eff0, codec.vk_send_table_effective_max(), codec.vk_send_table_max_allowed());
            assert!(matches!(r, Poll::Ready(Ok(()))), "st.poll_send.both.ready_ok");
            let b = codec.vk_buffered();
            assert!(b.len() == FILL + 9 + 9 + 6 * (lmask.count_ones() as usize), "st.poll_send.both.exactly_two_frames_buffered");
            assert!(is_settings_ack(&b[FILL..FILL + 9]), "st.poll_send.both.ack_first");
            assert!(is_settings_frame(&b[FILL + 9..], &l0), "st.poll_send.both.then_our_settings_with_same_values");
            assert!(codec.vk_io().writes == 0, "st.poll_send.both.no_io");
            assert!(s1 == (1, Some(l0.clone()), None, true), "st.poll_send.both.slot_emptied_local_waiting_ack_same_values");
            // the peer's values are in force; OURS are not (they wait for the peer's ACK)
            assert!(remote_applied(&rs, !seen0, &c0, &c1, eff, &t0, &t1), "st.poll_send.both.remote_applied_local_not_yet");
            std::mem::forget(r);
            std::mem::forget(codec);
            std::mem::forget(streams);
        }
        let k: bool = kani::any();
        if k {
            body(0x77, 0x08);
        } else {
            body(0x04, 0x50);
        }
        kani::cover!(k, "cover.ack_then_initial_window_size");
        kani::cover!(!k, "cover.ack_then_max_frame_size_and_enable_connect_protocol");
    }

    // Nothing owed to the peer, nothing queued: nothing at all happens — in particular NO ACK is
    // produced from an empty slot (second half of "exactly once").
    // @harness id=st_poll_send_idle props=C14,C08 kind=bounded bound=write_buffer_fill_23_of_1200 tier=quick fn=Settings::poll_send
    #[kani::proof]
    #[kani::unwind(3)]
    #[kani::stub(<crate::proto::Error as std::convert::From<std::io::Error>>::from, crate::proto::verif_kani::io_error_to_proto_error_stub)]
    fn st_poll_send_idle() {
        fn body(kind: u8) {
            let l0 = any_settings_frame_masked(0x7f);
            let (mut s, mut codec, mut streams) = mk_all(kind, &l0, None, kani::any(), IoMode::Fail, 23);
            let s0 = s.vk_sig();
            let c0 = snap(&codec);
            let t0 = streams.vk_settings_snap();
            let w = noop_waker();
            let mut cx = Context::from_waker(&w);
            let r = s.poll_send(&mut cx, &mut codec, &mut streams);
            assert!(matches!(r, Poll::Ready(Ok(()))), "st.poll_send.idle.ready_ok");
            assert!(snap(&codec) == c0 && codec.vk_io().writes == 0, "st.poll_send.idle.buffers_nothing_no_ack");
            assert!(s.vk_sig() == s0 && streams.vk_settings_snap() == t0, "st.poll_send.idle.state_unchanged");
            std::mem::forget(r);
            std::mem::forget(codec);
            std::mem::forget(streams);
        }
        let k: bool = kani::any();
        if k {
            body(1);
        } else {
            body(2);
        }
        kani::cover!(k, "cover.idle_waiting_ack");
        kani::cover!(!k, "cover.idle_synced");
    }

    // Nothing owed to the peer: our queued SETTINGS go out (ToSend -> WaitingAck), nothing is applied.
    // @harness id=st_poll_send_local_room props=C14,C08 kind=bounded bound=write_buffer_fill_23_of_1200,local_frame_shape_in_{empty,all_parameters} tier=quick fn=Settings::poll_send
    #[kani::proof]
    #[kani::unwind(3)]
    #[kani::stub(<crate::proto::Error as std::convert::From<std::io::Error>>::from, crate::proto::verif_kani::io_error_to_proto_error_stub)]
    fn st_poll_send_local_room() {
        const FILL: usize = 23;
        fn body(kind: u8, lmask: u8) {
            let l0 = any_settings_frame_masked(lmask);
            let seen0: bool = kani::any();
            let (mut s, mut codec, mut streams) = mk_all(kind, &l0, None, seen0, IoMode::Fail, FILL);
            let s0 = s.vk_sig();
            let c0 = snap(&codec);
            let t0 = streams.vk_settings_snap();
            let w = noop_waker();
            let mut cx = Context::from_waker(&w);

            let r = s.poll_send(&mut cx, &mut codec, &mut streams);

            let s1 = s.vk_sig();
            let c1 = snap(&codec);
            assert!(matches!(r, Poll::Ready(Ok(()))), "st.poll_send.local.ready_ok");
            // nothing is applied by sending: neither codec limits nor streams
            assert!(c1.settings() == c0.settings() && streams.vk_settings_snap() == t0 && codec.vk_io().writes == 0, "st.poll_send.local.applies_nothing_no_io");
            let b = codec.vk_buffered();
            let n = (lmask.count_ones() as usize) * 6;
            assert!(b.len() == FILL + 9 + n && is_settings_frame(&b[FILL..], &l0), "st.poll_send.local.exactly_our_frame_buffered");
            assert!(s1 == (1, Some(l0.clone()), None, s0.3), "st.poll_send.local.waiting_ack_same_values_rest_untouched");
            std::mem::forget(r);
            std::mem::forget(codec);
            std::mem::forget(streams);
        }
        let k: bool = kani::any();
        if k {
            body(0, 0x7f);
        } else {
            body(0, 0x00);
        }
        kani::cover!(k, "cover.all_parameters_sent");
        kani::cover!(!k, "cover.empty_settings_sent");
    }

    // Buffer full and the transport blocks or fails: whatever is due stays due — the peer's frame
    // still in the slot (ACK owed, not lost), NOT applied, our frame still ToSend, nothing buffered.
    // @harness id=st_poll_send_blocked props=C14,C07,C08 kind=bounded bound=write_buffer_fill_1190_of_1200,remote_frame_shape_in_{none,all_but_initial_window_size},local_frame_shape_in_{initial_window_size} tier=quick timeout=300 fn=Settings::poll_send
    #[kani::proof]
    #[kani::unwind(3)]
    #[kani::stub(<crate::proto::Error as std::convert::From<std::io::Error>>::from, crate::proto::verif_kani::io_error_to_proto_error_stub)]
    fn st_poll_send_blocked() {
        const FILL: usize = 1190;
        fn body(fail: bool, has_remote: bool, kind: u8) {
            let l0 = any_settings_frame_masked(0x08);
            let rs = any_settings_frame_masked(0x77);
            let seen0: bool = kani::any();
            let mode = if fail { IoMode::Fail } else { IoMode::Pending };
            let (mut s, mut codec, mut streams) = mk_all(kind, &l0, if has_remote { Some(&rs) } else { None }, seen0, mode, FILL);
            let s0 = s.vk_sig();
            let c0 = snap(&codec);
            let t0 = streams.vk_settings_snap();
            let w = noop_waker();
            let mut cx = Context::from_waker(&w);

            let r = s.poll_send(&mut cx, &mut codec, &mut streams);

            if fail {
                assert!(matches!(r, Poll::Ready(Err(Error::Io(std::io::ErrorKind::BrokenPipe, _)))), "st.poll_send.io_error_surfaces");
            } else {
                assert!(r.is_pending(), "st.poll_send.blocked.pending");
            }
            assert!(s.vk_sig() == s0, "st.poll_send.blocked.ack_still_owed_state_unchanged");
            let c1 = snap(&codec);
            assert!(c1.buffered == c0.buffered && c1.written == 0 && !c1.has_next, "st.poll_send.blocked.buffers_nothing");
            assert!(c1.settings() == c0.settings() && streams.vk_settings_snap() == t0, "st.poll_send.blocked.applies_nothing_before_the_ack");
            std::mem::forget(r);
            std::mem::forget(codec);
            std::mem::forget(streams);
        }
        let k: u8 = kani::any();
        match k % 4 {
            0 => body(false, true, 2),
            1 => body(false, true, 0),
            2 => body(false, false, 0),
            _ => body(true, true, 1),
        }
        kani::cover!(k % 4 == 0, "cover.ack_owed_kept");
        kani::cover!(k % 4 == 2, "cover.local_settings_kept");
        kani::cover!(k % 4 == 3, "cover.io_error");
    }

    // Buffer full, the flush is accepted: earlier bytes reach the transport, then as with room.
    // @harness id=st_poll_send_ack_flush props=C14,C08 kind=bounded bound=write_buffer_fill_1190_of_1200,remote_frame_shape_all_but_initial_window_size tier=quick fn=Settings::poll_send
    #[kani::proof]
    #[kani::unwind(3)]
    #[kani::stub(<crate::proto::Error as std::convert::From<std::io::Error>>::from, crate::proto::verif_kani::io_error_to_proto_error_stub)]
    fn st_poll_send_ack_flush() {
        const FILL: usize = 1190;
        let l0 = any_settings_frame_masked(0x08);
        let rs = any_settings_frame_masked(0x77);
        let seen0: bool = kani::any();
        let (mut s, mut codec, mut streams) = mk_all(1, &l0, Some(&rs), seen0, IoMode::Accept, FILL);
        let c0 = snap(&codec);
        let t0 = streams.vk_settings_snap();
        let eff0 = codec.vk_send_table_effective_max();
        assert!(!has_room(&codec), "st.poll_send.flush.harness_prestate_has_no_room");
        let w = noop_waker();
        let mut cx = Context::from_waker(&w);

        let r = s.poll_send(&mut cx, &mut codec, &mut streams);

        let c1 = snap(&codec);
        let t1 = streams.vk_settings_snap();
        let eff = (eff0, codec.vk_send_table_effective_max(), codec.vk_send_table_max_allowed());
        assert!(matches!(r, Poll::Ready(Ok(()))), "st.poll_send.flush.ready_ok");
        assert!(c1.written == FILL && is_settings_ack(codec.vk_buffered()), "st.poll_send.flush.exactly_one_ack_after_flush");
        assert!(s.vk_sig() == (1, Some(l0.clone()), None, true), "st.poll_send.flush.slot_emptied_local_untouched");
        assert!(remote_applied(&rs, !seen0, &c0, &c1, eff, &t0, &t1), "st.poll_send.flush.remote_settings_applied_exactly");
        kani::cover!(!seen0, "cover.initial_settings");
        kani::cover!(seen0, "cover.later_settings");
        std::mem::forget(r);
        std::mem::forget(codec);
        std::mem::forget(streams);
    }

    // The ACK fits, our own frame does not (the 9 ACK bytes cross the capacity threshold) and the
    // transport blocks: Pending, but the ACK is buffered, the peer's frame applied and the slot empty —
    // so the next poll_send cannot ACK a second time; our frame is still ToSend (not lost).
    // @harness id=st_poll_send_ack_then_blocked props=C14,C08 kind=bounded bound=write_buffer_fill_167_of_1200,remote_frame_shape_all_but_initial_window_size,local_frame_shape_initial_window_size tier=quick fn=Settings::poll_send
    #[kani::proof]
    #[kani::unwind(3)]
    #[kani::stub(<crate::proto::Error as std::convert::From<std::io::Error>>::from, crate::proto::verif_kani::io_error_to_proto_error_stub)]
    fn st_poll_send_ack_then_blocked() {
        const FILL: usize = 167; // 1200 - 167 = 1033 = min_buffer_capacity: room for exactly one more frame
        let l0 = any_settings_frame_masked(0x08);
        let rs = any_settings_frame_masked(0x77);
        let seen0: bool = kani::any();
        let (mut s, mut codec, mut streams) = mk_all(0, &l0, Some(&rs), seen0, IoMode::Pending, FILL);
        let c0 = snap(&codec);
        let t0 = streams.vk_settings_snap();
        let eff0 = codec.vk_send_table_effective_max();
        assert!(has_room(&codec), "st.poll_send.ack_then_blocked.harness_prestate_has_room_for_one");
        let w = noop_waker();
        let mut cx = Context::from_waker(&w);

        let r = s.poll_send(&mut cx, &mut codec, &mut streams);

        let c1 = snap(&codec);
        let t1 = streams.vk_settings_snap();
        let eff = (eff0, codec.vk_send_table_effective_max(), codec.vk_send_table_max_allowed());
        assert!(r.is_pending(), "st.poll_send.ack_then_blocked.pending");
        let b = codec.vk_buffered();
        assert!(b.len() == FILL + 9 && is_settings_ack(&b[FILL..]) && c1.written == 0, "st.poll_send.ack_then_blocked.exactly_the_ack_buffered");
        assert!(s.vk_sig() == (0, Some(l0.clone()), None, true), "st.poll_send.ack_then_blocked.slot_emptied_local_still_to_send");
        assert!(remote_applied(&rs, !seen0, &c0, &c1, eff, &t0, &t1), "st.poll_send.ack_then_blocked.remote_settings_applied_exactly");
        kani::cover!(!seen0, "cover.initial_settings");
        std::mem::forget(r);
        std::mem::forget(codec);
        std::mem::forget(streams);
    }
}
