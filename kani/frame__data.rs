//! Builders for src/frame/data.rs used by the streams-layer harnesses.
#![allow(dead_code, unused_imports)]
use super::*;

// ---- streams-layer helpers begin (inherent method: reachable crate-wide although `frame::data` is private)
impl Data<Bytes> {
    /// The frame as `Data::load` produces it for a PADDED frame with `pad` padding octets.
    pub(crate) fn vk_with_padding(mut self, pad: Option<u8>) -> Self {
        self.pad_len = pad;
        if pad.is_some() {
            self.flags.0 |= PADDED;
        }
        self
    }
}
// ---- streams-layer helpers end
