//! Contracts for src/frame/data.rs (DATA, RFC 9113 §6.1).
//!
//! C01/C12: `Data::load`: without PADDED the data is the whole payload; with PADDED (0x8) the first octet
//!      p is the pad length, p >= payload length -> Err(TooMuchPadding), otherwise the data is EXACTLY
//!      octets [1 .. n-p) of the payload (same buffer, start + 1, length n-1-p); END_STREAM (0x1) is
//!      carried, undefined flag bits are dropped; `flow_controlled_len()` is the WHOLE payload length n
//!      (§6.9.1: pad length octet and padding are flow controlled).
//!      `Data::encode_chunk`: head = (length = remaining octets, type 0, flags, stream id) followed by
//!      exactly those octets; the frame's buffer is drained.
//! C09: DATA on stream 0 -> Err(InvalidStreamId) (connection error PROTOCOL_ERROR).
//! C08: no (head, payload) panics: every flag octet, stream id, payload length 0..=2^24-1, first octet.
#![allow(dead_code, unused_imports)]
use super::*;

pub(crate) fn data_raw_flags<T>(d: &Data<T>) -> u8 {
    d.flags.0
}

pub(crate) fn data_pad_len<T>(d: &Data<T>) -> Option<u8> {
    d.pad_len
}

// ---- streams-layer helpers begin (inherent method: reachable crate-wide although `frame::data` is private)
// (copied verbatim from /verif/kani/frame__data.rs so that this file can replace it)
impl Data<Bytes> {
    /// The frame as `Data::load` produces it for a PADDED frame with `pad` padding octets.
    pub(crate) fn vk_with_padding(mut self, pad: Option<u8>) -> Self {
        self.pad_len = pad;
        if pad.is_some() {
            self.flags.0 |= PADDED;
        }
        self
    }
}
// ---- streams-layer helpers end

#[cfg(kani)]
mod proofs {
    use super::*;
    use crate::frame::verif_kani::{
        any_head_of, any_payload_static, err_class, spec_head_fields, E_PADDING, E_STREAM_ID, MAX_LEN24, T_DATA, WIRE_MAX,
    };
    use crate::verif_kani::any_stream_id;
    use bytes::BytesMut;

    // @harness id=data_load props=C01,C12,C09,C08,C03 kind=complete tier=quick fn=Data::load,Data::flow_controlled_len,Data::is_end_stream,Data::stream_id,Data::payload,DataFlags::load,DataFlags::is_padded,DataFlags::is_end_stream
    #[kani::proof]
    fn data_load() {
        // requires: nothing but head.kind() == Data (dispatch in decode_frame)
        let head = any_head_of(Kind::Data);
        // a `Bytes` over leaked memory (static vtable): what backs a `Bytes` is the bytes crate's business
        let s = any_payload_static(WIRE_MAX);
        let (base, n, first) = (s.as_ptr(), s.len(), if s.is_empty() { 0 } else { s[0] });

        let r = Data::load(head, Bytes::from_static(s));

        let sid = u32::from(head.stream_id());
        let padded = head.flag() & 0x8 != 0;
        let end_stream = head.flag() & 0x1 != 0;
        let p = first as usize;
        let too_much = padded && (n == 0 || p >= n);
        assert!(r.is_err() == (sid == 0 || too_much), "data.load.err_iff_stream_zero_or_too_much_padding");
        match &r {
            Ok(d) => {
                assert!(d.stream_id() == head.stream_id(), "data.load.stream_id_from_head");
                assert!(d.is_end_stream() == end_stream, "data.load.end_stream_is_flag_bit_0");
                assert!(data_raw_flags(d) == head.flag() & 0x9, "data.load.undefined_flag_bits_dropped");
                if padded {
                    assert!(d.payload().len() == n - 1 - p, "data.load.padded_data_len_is_n_minus_1_minus_pad");
                    assert!(d.payload().as_ptr() == base.wrapping_add(1), "data.load.padded_data_starts_after_pad_length_octet");
                    assert!(data_pad_len(d) == Some(first), "data.load.padded_records_pad_len");
                } else {
                    assert!(d.payload().len() == n, "data.load.unpadded_data_is_whole_payload_len");
                    assert!(n == 0 || d.payload().as_ptr() == base, "data.load.unpadded_data_is_whole_payload_start");
                    assert!(data_pad_len(d).is_none(), "data.load.unpadded_no_pad_len");
                }
                assert!(d.flow_controlled_len() == n, "data.flow_controlled_len.is_whole_frame_payload");
            }
            Err(e) => {
                let c = err_class(e);
                assert!(c == E_STREAM_ID || c == E_PADDING, "data.load.err_class");
                assert!(c != E_STREAM_ID || sid == 0, "data.load.invalid_stream_id_only_on_stream_0");
                assert!(c != E_PADDING || too_much, "data.load.too_much_padding_only_if_pad_ge_len");
            }
        }
        kani::cover!(r.is_ok() && padded && p == 255 && n == WIRE_MAX && end_stream, "cover.ok_max_padding_longest_end_stream");
        kani::cover!(r.is_ok() && !padded && n == 0 && head.flag() == 0xf6, "cover.ok_empty_unpadded_junk_flags");
        kani::cover!(r.is_err() && sid == 0 && !padded, "cover.err_stream_zero");
        kani::cover!(r.is_err() && sid != 0 && p == n, "cover.err_pad_equals_len");
        std::mem::forget(r);
    }

    // @harness id=data_encode_chunk props=C12,C01,C08 kind=bounded bound=chunk<=32B tier=quick fn=Data::encode_chunk,Data::new,Data::set_end_stream,Data::head,Data::is_end_stream,DataFlags::set_end_stream,DataFlags::unset_end_stream
    #[kani::proof]
    #[kani::unwind(3)]
    #[kani::stub(bytes::BytesMut::reserve_inner, crate::frame::verif_kani::sink_must_not_grow)]
    fn data_encode_chunk() {
        // unwind 3: `BufMut::put`'s `while src.has_remaining()` (a `Bytes` is one chunk)
        const CHUNK_MAX: usize = 32;
        let id = any_stream_id();
        // requires (asserted by Data::new): stream id != 0
        kani::assume(!id.is_zero());
        // the chunk: a `Bytes` over a leaked fixed array (static vtable), symbolic length and content
        let arr: &'static [u8; CHUNK_MAX] = Box::leak(Box::new(kani::any()));
        let n: usize = kani::any();
        kani::assume(n <= CHUNK_MAX);
        let src: &'static [u8] = &arr[..n];
        let mut d = Data::new(id, Bytes::from_static(src));
        assert!(!d.is_end_stream() && data_raw_flags(&d) == 0 && data_pad_len(&d).is_none(), "data.new.no_flags_no_padding");
        let eos: bool = kani::any();
        if kani::any() {
            // set then possibly unset: the flag is the LAST value given
            d.set_end_stream(!eos);
        }
        d.set_end_stream(eos);
        assert!(d.is_end_stream() == eos, "data.set_end_stream.is_end_stream");
        assert!(d.head() == Head::new(Kind::Data, if eos { 0x1 } else { 0x0 }, id), "data.head.kind_flags_stream_id");

        // sink: the BytesMut FramedWrite uses, with room for the frame (stub: see sink_must_not_grow).
        // requires (asserted by encode_chunk): dst.remaining_mut() >= len — always true for BytesMut.
        let mut wire = BytesMut::with_capacity(64);
        d.encode_chunk(&mut wire);
        let written = wire.len();

        assert!(written == 9 + n, "data.encode_chunk.writes_head_plus_all_remaining_octets");
        let (len, ty, fl, r, wid) = spec_head_fields(&wire[..9]);
        assert!(len == n && len <= MAX_LEN24, "data.encode_chunk.length_field_is_payload_remaining");
        assert!(ty == T_DATA, "data.encode_chunk.type_is_0");
        assert!(fl == if eos { 0x1 } else { 0x0 }, "data.encode_chunk.flags_exactly_end_stream_or_none_never_padded");
        assert!(!r && wid == u32::from(id), "data.encode_chunk.stream_id");
        let i: usize = kani::any();
        if i < n {
            assert!(wire[9 + i] == src[i], "data.encode_chunk.payload_verbatim");
        }
        assert!(d.payload().is_empty(), "data.encode_chunk.drains_the_frame");

        // and the read path gets the same frame back
        let head = Head::parse(&wire[..9]);
        assert!(head.kind() == Kind::Data, "data.roundtrip.dispatched_as_data");
        let back = Data::load(head, Bytes::from_static(src));
        assert!(
            matches!(&back, Ok(b) if b.stream_id() == id && b.is_end_stream() == eos && b.payload().len() == n
                && data_pad_len(b).is_none() && b.flow_controlled_len() == n),
            "data.roundtrip.load_of_encode_is_identity"
        );
        kani::cover!(n == CHUNK_MAX && eos && i == CHUNK_MAX - 1 && src[i] == 0x77, "cover.full_chunk_end_stream");
        kani::cover!(n == 0 && eos, "cover.empty_end_stream");
        kani::cover!(n == 5 && !eos, "cover.small_no_end_stream");
        std::mem::forget(back);
        std::mem::forget(d);
        std::mem::forget(wire);
    }
}
