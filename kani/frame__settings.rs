//! Contracts for src/frame/settings.rs (SETTINGS, RFC 9113 §6.5; ENABLE_CONNECT_PROTOCOL RFC 8441 §3).
//!
//!   entry = | Identifier (16) | Value (32) |      payload = entry*
//!
//! C12: load(encode(s)) == s for all 2^7 presence combinations of the 7 known settings with every legal
//!      value, and for the ACK; `encode` writes exactly the present settings (6 octets each), length field
//!      = 6 * #present, type 4, flags = ACK or nothing, stream 0.
//! C09: `load` fails IF AND ONLY IF stream id != 0 (PROTOCOL_ERROR), ACK with a non-empty payload or
//!      length % 6 != 0 (FRAME_SIZE_ERROR), ENABLE_PUSH not in {0,1}, INITIAL_WINDOW_SIZE > 2^31-1,
//!      MAX_FRAME_SIZE outside 2^14..=2^24-1, ENABLE_CONNECT_PROTOCOL not in {0,1}.  Unknown identifiers
//!      and undefined flag bits are ignored, entries are processed in order (the last occurrence wins).
//! C08: no input panics (entry decoding: complete over all (u16,u32); frame: payload <= 24 octets = 4
//!      entries because of the `chunks(6)` loop, plus every length up to 2^24-1 on the loop-free paths).
#![allow(dead_code, unused_imports)]
use super::*;

pub(crate) const ID_HEADER_TABLE_SIZE: u16 = 1;
pub(crate) const ID_ENABLE_PUSH: u16 = 2;
pub(crate) const ID_MAX_CONCURRENT_STREAMS: u16 = 3;
pub(crate) const ID_INITIAL_WINDOW_SIZE: u16 = 4;
pub(crate) const ID_MAX_FRAME_SIZE: u16 = 5;
pub(crate) const ID_MAX_HEADER_LIST_SIZE: u16 = 6;
pub(crate) const ID_ENABLE_CONNECT_PROTOCOL: u16 = 8;

/// Index 0..7 of a known identifier in the field order of `Settings`, None for unknown identifiers.
pub(crate) fn known_index(id: u16) -> Option<usize> {
    match id {
        ID_HEADER_TABLE_SIZE => Some(0),
        ID_ENABLE_PUSH => Some(1),
        ID_MAX_CONCURRENT_STREAMS => Some(2),
        ID_INITIAL_WINDOW_SIZE => Some(3),
        ID_MAX_FRAME_SIZE => Some(4),
        ID_MAX_HEADER_LIST_SIZE => Some(5),
        ID_ENABLE_CONNECT_PROTOCOL => Some(6),
        _ => None,
    }
}

/// RFC 9113 §6.5.2 / RFC 8441 §3: is `val` a legal value for identifier `id`?  (unknown ids: always)
pub(crate) fn spec_value_legal(id: u16, val: u32) -> bool {
    match id {
        ID_ENABLE_PUSH | ID_ENABLE_CONNECT_PROTOCOL => val <= 1,
        ID_INITIAL_WINDOW_SIZE => val <= 0x7fff_ffff,
        ID_MAX_FRAME_SIZE => val >= 16_384 && val <= 16_777_215,
        _ => true,
    }
}

/// The seven optional values in field order + the ACK bit.
pub(crate) fn settings_fields(s: &Settings) -> ([Option<u32>; 7], bool) {
    (
        [
            s.header_table_size,
            s.enable_push,
            s.max_concurrent_streams,
            s.initial_window_size,
            s.max_frame_size,
            s.max_header_list_size,
            s.enable_connect_protocol,
        ],
        s.flags.is_ack(),
    )
}

/// Loop-free equality of two field vectors.
pub(crate) fn eq7(a: &[Option<u32>; 7], b: &[Option<u32>; 7]) -> bool {
    a[0] == b[0] && a[1] == b[1] && a[2] == b[2] && a[3] == b[3] && a[4] == b[4] && a[5] == b[5] && a[6] == b[6]
}

pub(crate) const NONE7: [Option<u32>; 7] = [None; 7];

pub(crate) fn settings_raw_flags(s: &Settings) -> u8 {
    s.flags.0
}

pub(crate) fn mk_settings(f: [Option<u32>; 7]) -> Settings {
    Settings {
        flags: SettingsFlags::empty(),
        header_table_size: f[0],
        enable_push: f[1],
        max_concurrent_streams: f[2],
        initial_window_size: f[3],
        max_frame_size: f[4],
        max_header_list_size: f[5],
        enable_connect_protocol: f[6],
    }
}

pub(crate) fn setting_id_val(s: &Setting) -> (u16, u32) {
    match *s {
        Setting::HeaderTableSize(v) => (ID_HEADER_TABLE_SIZE, v),
        Setting::EnablePush(v) => (ID_ENABLE_PUSH, v),
        Setting::MaxConcurrentStreams(v) => (ID_MAX_CONCURRENT_STREAMS, v),
        Setting::InitialWindowSize(v) => (ID_INITIAL_WINDOW_SIZE, v),
        Setting::MaxFrameSize(v) => (ID_MAX_FRAME_SIZE, v),
        Setting::MaxHeaderListSize(v) => (ID_MAX_HEADER_LIST_SIZE, v),
        Setting::EnableConnectProtocol(v) => (ID_ENABLE_CONNECT_PROTOCOL, v),
    }
}

/// Any non-ACK SETTINGS with legal values: each of the 7 fields independently absent or present.
#[cfg(kani)]
pub(crate) fn any_legal_settings_fields() -> [Option<u32>; 7] {
    let ids = [
        ID_HEADER_TABLE_SIZE,
        ID_ENABLE_PUSH,
        ID_MAX_CONCURRENT_STREAMS,
        ID_INITIAL_WINDOW_SIZE,
        ID_MAX_FRAME_SIZE,
        ID_MAX_HEADER_LIST_SIZE,
        ID_ENABLE_CONNECT_PROTOCOL,
    ];
    let mut f = [None; 7];
    let mut k = 0;
    while k < 7 {
        if kani::any() {
            let v: u32 = kani::any();
            kani::assume(spec_value_legal(ids[k], v));
            f[k] = Some(v);
        }
        k += 1;
    }
    f
}

#[cfg(kani)]
mod proofs {
    use super::*;
    use crate::frame::verif_kani::{
        any_head_of, any_payload, be32, err_class, spec_head_fields, E_SETTING_VALUE, E_SIZE, E_STREAM_ID,
        MIN_MAX_FRAME_SIZE, T_SETTINGS, WIRE_MAX,
    };
    use bytes::BytesMut;

    // Entry level, all 2^16 identifiers x 2^32 values.
    // @harness id=setting_entry_codec props=C12,C09,C08 kind=complete tier=quick fn=Setting::from_id,Setting::load,Setting::encode
    #[kani::proof]
    fn setting_entry_codec() {
        let raw: [u8; 8] = kani::any();
        let extra: usize = kani::any();
        // requires: >= 6 octets (Settings::load passes the chunks of a payload whose length is a multiple
        // of 6); up to 2 trailing octets given to show they are ignored
        kani::assume(extra <= 2);
        let id = u16::from_be_bytes([raw[0], raw[1]]);
        let val = be32(&raw, 2);

        let s = Setting::load(&raw[..6 + extra]);
        let t = Setting::from_id(id, val);
        assert!(s.is_some() == known_index(id).is_some(), "setting.load.some_iff_identifier_known");
        assert!(t.is_some() == known_index(id).is_some(), "setting.from_id.some_iff_identifier_known");
        match (&s, &t) {
            (Some(s), Some(t)) => {
                assert!(setting_id_val(s) == (id, val), "setting.load.identifier_and_value_big_endian");
                assert!(setting_id_val(t) == (id, val), "setting.from_id.identifier_and_value");
                // and back: encode writes the same 6 octets
                let mut dst = BytesMut::with_capacity(16);
                s.encode(&mut dst);
                assert!(dst.len() == 6, "setting.encode.writes_exactly_6_octets");
                assert!(dst[..] == raw[..6], "setting.encode.inverse_of_load");
                std::mem::forget(dst);
            }
            _ => {}
        }
        kani::cover!(id == ID_ENABLE_CONNECT_PROTOCOL && val == 1, "cover.enable_connect_protocol");
        kani::cover!(id == 7 && s.is_none(), "cover.unassigned_7_ignored");
        kani::cover!(id == 0 && s.is_none(), "cover.reserved_0_ignored");
        kani::cover!(id == ID_MAX_FRAME_SIZE && val == 0xffff_ffff, "cover.entry_level_does_not_validate");
    }

    // @harness id=settings_roundtrip props=C12,C08 kind=complete tier=quick fn=Settings::encode,Settings::load,Settings::payload_len,Settings::for_each,Settings::ack,Settings::is_ack
    #[kani::proof]
    #[kani::unwind(9)]
    #[kani::stub(bytes::BytesMut::reserve_inner, crate::frame::verif_kani::sink_must_not_grow)]
    fn settings_roundtrip() {
        // requires: legal values.  Call sites: client/server Builder setters -> Settings::set_* —
        // set_enable_push(bool) gives 0/1, set_max_frame_size asserts the range,
        // set_enable_connect_protocol is only called with Some(1), Connection::set_initial_window_size
        // asserts <= 2^31-1.  NOT guaranteed by h2: {client,server}::Builder::initial_window_size(u32)
        // stores any u32 unchecked, so a value > 2^31-1 chosen by the application is emitted as is (and
        // must be answered with FLOW_CONTROL_ERROR by the peer, §6.5.2); legality of that one value is
        // the application's obligation.
        // unwind 9: `payload.chunks(6)` over at most 7 entries, the builder loop of 7.
        let f = any_legal_settings_fields();
        // how h2 builds a non-ACK frame: field setters on a default frame
        let s = mk_settings(f);
        let mut present = 0usize;
        let mut k = 0;
        while k < 7 {
            if f[k].is_some() {
                present += 1;
            }
            k += 1;
        }
        assert!(!s.is_ack(), "settings.default.is_not_ack");

        // sink: the BytesMut FramedWrite uses, with room for the frame (stub: see sink_must_not_grow)
        let mut dst = BytesMut::with_capacity(64);
        s.encode(&mut dst);

        assert!(dst.len() == 9 + 6 * present, "settings.encode.writes_only_the_present_settings");
        let (len, ty, fl, r, id) = spec_head_fields(&dst[..9]);
        assert!(len == 6 * present && len == dst.len() - 9, "settings.encode.length_field_is_payload_len");
        assert!(len <= 42 && len <= MIN_MAX_FRAME_SIZE, "settings.encode.within_every_peers_max_frame_size");
        assert!(ty == T_SETTINGS, "settings.encode.type_is_4");
        assert!(fl == 0x0, "settings.encode.no_flags");
        assert!(!r && id == 0, "settings.encode.stream_zero");

        let head = Head::parse(&dst[..9]);
        assert!(head.kind() == Kind::Settings, "settings.roundtrip.dispatched_as_settings");
        let back = Settings::load(head, &dst[9..]);
        assert!(back.is_ok(), "settings.roundtrip.own_frames_always_load");
        if let Ok(b) = &back {
            assert!(*b == s, "settings.roundtrip.load_of_encode_is_identity");
            let (bf, back_ack) = settings_fields(b);
            assert!(!back_ack, "settings.roundtrip.not_ack");
            assert!(eq7(&bf, &f), "settings.roundtrip.every_field_present_or_absent_and_value");
        }
        kani::cover!(present == 7, "cover.all_seven");
        kani::cover!(present == 0, "cover.empty_non_ack");
        kani::cover!(present == 2 && f[6] == Some(1) && f[4] == Some(16_777_215), "cover.two");
        std::mem::forget(dst);
    }

    // @harness id=settings_ack_roundtrip props=C12,C08 kind=complete tier=quick fn=Settings::ack,Settings::encode,Settings::load,Settings::is_ack
    #[kani::proof]
    #[kani::unwind(2)]
    fn settings_ack_roundtrip() {
        // the only way h2 builds an ACK
        let s = Settings::ack();
        assert!(s.is_ack() && eq7(&settings_fields(&s).0, &NONE7), "settings.ack.is_ack_and_empty");
        let mut dst = BytesMut::with_capacity(64);
        s.encode(&mut dst);
        assert!(dst.len() == 9, "settings.encode.ack_has_empty_payload");
        let (len, ty, fl, r, id) = spec_head_fields(&dst[..9]);
        assert!(len == 0 && ty == T_SETTINGS && fl == 0x1 && !r && id == 0, "settings.encode.ack_head");
        let head = Head::parse(&dst[..9]);
        let back = Settings::load(head, &dst[9..]);
        assert!(back == Ok(Settings::ack()), "settings.roundtrip.ack_load_of_encode_is_identity");
        assert!(matches!(&back, Ok(b) if b.is_ack() && eq7(&settings_fields(b).0, &NONE7)), "settings.roundtrip.ack_fields");
        kani::cover!(back.is_ok(), "cover.ack");
        std::mem::forget(dst);
    }

    // Full validation table on payloads of up to 4 entries (symbolic content, symbolic length).
    // @harness id=settings_load_validation props=C09,C08,C12 kind=bounded bound=payload<=24B(4_entries) tier=quick fn=Settings::load,SettingsFlags::load,SettingsFlags::is_ack
    #[kani::proof]
    #[kani::unwind(6)]
    fn settings_load_validation() {
        // requires: head.kind() == Settings (dispatch in decode_frame).  All flags, all stream ids.
        let head = any_head_of(Kind::Settings);
        let buf: [u8; 24] = kani::any();
        let n: usize = kani::any();
        kani::assume(n <= 24);

        let r = Settings::load(head, &buf[..n]);

        // ---- specification, RFC 9113 §6.5 ----
        let bad_stream = u32::from(head.stream_id()) != 0;
        let ack = head.flag() & 0x1 == 0x1;
        let bad_len = if ack { n != 0 } else { n % 6 != 0 };
        let mut bad_value = false;
        let mut want: [Option<u32>; 7] = [None; 7];
        if !ack && !bad_len {
            let mut e = 0;
            while e < 4 {
                if e * 6 < n {
                    let id = u16::from_be_bytes([buf[e * 6], buf[e * 6 + 1]]);
                    let val = be32(&buf, e * 6 + 2);
                    if !spec_value_legal(id, val) {
                        bad_value = true;
                    }
                    if let Some(k) = known_index(id) {
                        want[k] = Some(val); // in order: the last occurrence wins
                    }
                }
                e += 1;
            }
        }
        // ---------------------------------------

        assert!(r.is_err() == (bad_stream || bad_len || bad_value), "settings.load.err_iff_rfc_error");
        match &r {
            Ok(s) => {
                let (got, got_ack) = settings_fields(s);
                assert!(got_ack == ack, "settings.load.ack_is_flag_bit_0");
                assert!(settings_raw_flags(s) == head.flag() & 0x1, "settings.load.undefined_flag_bits_dropped");
                assert!(eq7(&got, &want), "settings.load.fields_are_last_occurrence_unknown_ids_ignored");
            }
            Err(e) => {
                let c = err_class(e);
                assert!(c != E_STREAM_ID || bad_stream, "settings.load.invalid_stream_id_only_if_nonzero_stream");
                assert!(c != E_SIZE || bad_len, "settings.load.size_error_only_if_bad_length");
                assert!(c != E_SETTING_VALUE || bad_value, "settings.load.value_error_only_if_illegal_value");
                assert!(c == E_STREAM_ID || c == E_SIZE || c == E_SETTING_VALUE, "settings.load.err_class");
            }
        }
        kani::cover!(r.is_ok() && n == 24 && want[1] == Some(0) && want[3] == Some(0x7fff_ffff), "cover.ok_four_entries");
        kani::cover!(r.is_ok() && n == 12 && eq7(&want, &NONE7), "cover.ok_only_unknown_ids");
        kani::cover!(r.is_ok() && n == 12 && buf[1] == 4 && buf[7] == 4 && buf[5] != buf[11], "cover.ok_duplicate_last_wins");
        kani::cover!(r.is_err() && !bad_stream && !bad_len && n == 24 && buf[19] == 5, "cover.err_bad_value_in_last_entry");
    }

    // The value rules one by one (single entry, every value): exact thresholds.
    // @harness id=settings_load_value_rules props=C09,C08 kind=complete tier=quick fn=Settings::load
    #[kani::proof]
    #[kani::unwind(3)]
    fn settings_load_value_rules() {
        let id: u16 = kani::any();
        let val: u32 = kani::any();
        let mut buf = [0u8; 6];
        buf[..2].copy_from_slice(&id.to_be_bytes());
        buf[2..].copy_from_slice(&val.to_be_bytes());
        let head = Head::new(Kind::Settings, 0, StreamId::zero());

        let r = Settings::load(head, &buf);

        let illegal = (id == 2 && val > 1)
            || (id == 4 && val > 2_147_483_647)
            || (id == 5 && (val < 16_384 || val > 16_777_215))
            || (id == 8 && val > 1);
        assert!(r.is_err() == illegal, "settings.load.single_entry_err_iff_value_illegal");
        match &r {
            Ok(s) => {
                let (got, ack) = settings_fields(s);
                let mut want = [None; 7];
                if let Some(k) = known_index(id) {
                    want[k] = Some(val);
                }
                assert!(eq7(&got, &want) && !ack, "settings.load.single_entry_sets_exactly_that_field");
                if id == 2 {
                    assert!(s.is_push_enabled() == Some(val == 1), "settings.is_push_enabled.exact");
                }
                if id == 8 {
                    assert!(s.is_extended_connect_protocol_enabled() == Some(val == 1), "settings.is_extended_connect_protocol_enabled.exact");
                }
            }
            Err(e) => assert!(*e == Error::InvalidSettingValue, "settings.load.illegal_value_is_invalid_setting_value"),
        }
        kani::cover!(r.is_ok() && id == 5 && val == 16_384, "cover.max_frame_size_lower_edge_ok");
        kani::cover!(r.is_ok() && id == 5 && val == 16_777_215, "cover.max_frame_size_upper_edge_ok");
        kani::cover!(r.is_ok() && id == 4 && val == 2_147_483_647, "cover.initial_window_upper_edge_ok");
        kani::cover!(r.is_err() && id == 8 && val == 2, "cover.enable_connect_protocol_2_rejected");
    }

    // Length / ACK / stream-id rules for EVERY payload length the wire can announce (the entry loop is
    // not entered on these paths).
    // @harness id=settings_load_length_rules props=C09,C08 kind=complete tier=quick fn=Settings::load
    #[kani::proof]
    #[kani::unwind(2)]
    fn settings_load_length_rules() {
        let head = any_head_of(Kind::Settings);
        let buf = any_payload(WIRE_MAX);
        let n = buf.len();
        let bad_stream = u32::from(head.stream_id()) != 0;
        let ack = head.flag() & 0x1 == 0x1;
        // restrict to the loop-free paths: an error is due before the entries are looked at, or the
        // payload is empty
        kani::assume(bad_stream || ack || n % 6 != 0 || n == 0);

        let r = Settings::load(head, &buf[..]);

        let bad_len = if ack { n != 0 } else { n % 6 != 0 };
        assert!(r.is_err() == (bad_stream || bad_len), "settings.load.length_rules_err_iff");
        match &r {
            Ok(s) => {
                let (got, got_ack) = settings_fields(s);
                assert!(eq7(&got, &NONE7) && got_ack == ack, "settings.load.empty_payload_sets_nothing");
            }
            Err(e) => {
                let c = err_class(e);
                assert!(c == E_STREAM_ID || c == E_SIZE, "settings.load.length_rules_err_class");
                assert!(c != E_STREAM_ID || bad_stream, "settings.load.length_rules_stream_error_cause");
                assert!(c != E_SIZE || bad_len, "settings.load.length_rules_size_error_cause");
            }
        }
        kani::cover!(r.is_ok() && ack && head.flag() == 0xff, "cover.ack_ok_other_flags_ignored");
        kani::cover!(r.is_err() && ack && n == 6 && !bad_stream, "cover.ack_with_payload");
        kani::cover!(r.is_err() && !ack && n == WIRE_MAX && !bad_stream, "cover.longest_not_multiple_of_6");
        kani::cover!(r.is_err() && bad_stream && n == 0, "cover.nonzero_stream");
        std::mem::forget(buf);
    }

    // The flag octet: only ACK (0x1) is defined for SETTINGS, every other bit is dropped on receipt.
    // @harness id=settings_flags props=C09,C12,C08 kind=complete tier=quick fn=SettingsFlags::load,SettingsFlags::is_ack,SettingsFlags::ack,SettingsFlags::empty,From<SettingsFlags>@u8::from
    #[kani::proof]
    fn settings_flags() {
        let bits: u8 = kani::any();
        let f = SettingsFlags::load(bits);
        assert!(u8::from(f) == bits & 0x1, "settings_flags.load.keeps_only_ack_bit");
        assert!(f.is_ack() == (bits & 0x1 == 0x1), "settings_flags.is_ack.is_bit_0");
        assert!(u8::from(SettingsFlags::ack()) == 0x1 && SettingsFlags::ack().is_ack(), "settings_flags.ack.is_0x1");
        assert!(u8::from(SettingsFlags::empty()) == 0x0 && !SettingsFlags::empty().is_ack(), "settings_flags.empty.is_0x0");
        kani::cover!(bits == 0xff && f.is_ack(), "cover.all_bits");
        kani::cover!(bits == 0xfe && !f.is_ack(), "cover.all_but_ack");
    }

    // @harness id=settings_accessors props=C12,C08 kind=complete tier=quick fn=Settings::set_initial_window_size,Settings::set_max_concurrent_streams,Settings::set_max_frame_size,Settings::set_max_header_list_size,Settings::set_enable_push,Settings::set_enable_connect_protocol,Settings::set_header_table_size
    #[kani::proof]
    fn settings_accessors() {
        let v: Option<u32> = kani::any();
        let b: bool = kani::any();
        let mut s = Settings::default();
        assert!(eq7(&settings_fields(&s).0, &NONE7) && !s.is_ack(), "settings.default.empty_non_ack");
        s.set_header_table_size(v);
        assert!(s.header_table_size() == v && eq7(&settings_fields(&s).0, &[v, None, None, None, None, None, None]), "settings.set_header_table_size.only_that_field");
        s.set_enable_push(b);
        assert!(s.is_push_enabled() == Some(b) && settings_fields(&s).0[1] == Some(b as u32), "settings.set_enable_push.is_0_or_1");
        s.set_max_concurrent_streams(v);
        assert!(s.max_concurrent_streams() == v, "settings.set_max_concurrent_streams.get");
        s.set_initial_window_size(v);
        assert!(s.initial_window_size() == v, "settings.set_initial_window_size.get");
        // requires (asserted by the setter): legal MAX_FRAME_SIZE
        let m: u32 = kani::any();
        kani::assume(spec_value_legal(ID_MAX_FRAME_SIZE, m));
        s.set_max_frame_size(Some(m));
        assert!(s.max_frame_size() == Some(m), "settings.set_max_frame_size.get");
        s.set_max_header_list_size(v);
        assert!(s.max_header_list_size() == v, "settings.set_max_header_list_size.get");
        s.set_enable_connect_protocol(v);
        assert!(s.is_extended_connect_protocol_enabled() == v.map(|x| x != 0), "settings.set_enable_connect_protocol.get");
        assert!(
            eq7(&settings_fields(&s).0, &[v, Some(b as u32), v, v, Some(m), v, v]) && !s.is_ack(),
            "settings.setters.each_sets_exactly_its_field"
        );
        kani::cover!(v == Some(7) && b, "cover.some");
        kani::cover!(v.is_none() && !b, "cover.none");
    }
}
