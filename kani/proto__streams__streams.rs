//! Contracts for src/proto/streams/streams.rs: the dispatch layer (`Inner::recv_*`, `Actions::*`) —
//! what happens to frames for streams the endpoint does not (or no longer) know: RFC 9113 5.1 "idle" vs
//! "closed", the GOAWAY cut-off (C15), the races the property C09 says must be tolerated, and the
//! connection-window accounting of discarded DATA (C03).
#![allow(dead_code, unused_imports)]
use super::*;

// ---- connlevel helpers begin
/// What SETTINGS change in the streams layer, as far as it is observable without a stream:
/// (max_send_streams, max_recv_streams, recv initial window, send initial window,
///  extended CONNECT allowed on the send side, number of streams in the store)
pub(crate) type StreamsSettingsSnap = (usize, usize, u32, u32, bool, bool);

impl<B, P> Streams<B, P>
where
    P: Peer,
{
    pub(crate) fn vk_settings_snap(&self) -> StreamsSettingsSnap {
        let me = match self.inner.lock() {
            Ok(g) => g,
            Err(e) => e.into_inner(),
        };
        (
            me.counts.max_send_streams(),
            me.counts.max_recv_streams(),
            me.actions.recv.init_window_sz(),
            me.actions.send.init_window_sz(),
            me.actions.send.is_extended_connect_protocol_enabled(),
            me.counts.has_streams(),
        )
    }
}
// ---- connlevel helpers end


pub(crate) fn mk_inner(counts: Counts, recv: Recv, send: Send) -> Inner {
    Inner {
        counts,
        actions: Actions { recv, send, task: None, conn_error: None },
        store: Store::new(),
        refs: 1,
    }
}
pub(crate) fn mk_send_buffer<B>() -> SendBuffer<B> {
    SendBuffer::new()
}
pub(crate) fn forget_inner(i: Inner) {
    std::mem::forget(i);
}

#[cfg(kani)]
mod proofs {
    use super::*;
    use crate::proto::streams::counts::verif_kani::{any_counts, any_peer, forget_counts, raw_counts};
    use crate::proto::streams::recv::verif_kani::{any_recv, recv_ids, recv_raw, wf_recv_conn};
    use crate::proto::streams::send::verif_kani::{any_send, send_ids};
    use crate::verif_kani::{any_stream_id, len_only_bytes, sig, SymBuf};
    use crate::proto::MAX_WINDOW_SIZE;

    fn is_goaway(e: &Error, reason: Reason) -> bool {
        let code: u32 = reason.into();
        matches!(sig(e), (1, _, c, 1, _) if c == code)
    }

    /// Idle per RFC 9113 5.1.1: an id not yet used by its initiator (>= the next expected id of that side).
    fn spec_idle(peer: peer::Dyn, idv: u32, send_next: Option<u32>, recv_next: Option<u32>) -> bool {
        let local = (peer == peer::Dyn::Server) == (idv % 2 == 0);
        let next = if local { send_next } else { recv_next };
        match next {
            Some(n) => idv >= n,
            None => false,
        }
    }

    // RST_STREAM for a stream that is not in the store (empty store):
    //   stream 0                       => connection error PROTOCOL_ERROR
    //   id above our GOAWAY cut-off     => ignored, Ok (a peer racing with our GOAWAY is legal: C09/C15)
    //   idle stream (never opened)      => connection error PROTOCOL_ERROR (RFC 9113 6.4)
    //   previously used, now forgotten  => tolerated, Ok
    // and nothing about the connection changes in any case.
    // @harness id=inner_recv_reset_unknown_stream props=C09,C15,C17,C08 kind=complete tier=quick fn=Inner::recv_reset,Actions::ensure_not_idle
    #[kani::proof]
    #[kani::unwind(2)]
    fn inner_recv_reset_unknown_stream() {
        let peer = any_peer();
        let mut inner = mk_inner(any_counts(peer), any_recv(), any_send());
        let sb: SendBuffer<SymBuf> = mk_send_buffer();
        let (send_next, _) = send_ids(&inner.actions.send);
        let (recv_next, lp0, mx) = recv_ids(&inner.actions.recv);
        let c0 = raw_counts(&inner.counts);
        let id = any_stream_id();
        let idv: u32 = id.into();
        let code: u32 = kani::any();
        let r = inner.recv_reset(&sb, frame::Reset::new(id, Reason::from(code)));
        if idv == 0 {
            assert!(matches!(r, Err(ref e) if is_goaway(e, Reason::PROTOCOL_ERROR)), "inner.recv_reset.stream_zero_is_conn_protocol_error");
        } else if idv > mx {
            assert!(r.is_ok(), "inner.recv_reset.beyond_goaway_cutoff_is_ignored");
        } else if spec_idle(peer, idv, send_next, recv_next) {
            assert!(matches!(r, Err(ref e) if is_goaway(e, Reason::PROTOCOL_ERROR)), "inner.recv_reset.idle_stream_is_conn_protocol_error");
        } else {
            assert!(r.is_ok(), "inner.recv_reset.forgotten_stream_is_tolerated");
        }
        assert!(raw_counts(&inner.counts) == c0 && recv_ids(&inner.actions.recv) == (recv_next, lp0, mx), "inner.recv_reset.unknown_stream_changes_nothing");
        kani::cover!(idv > mx && idv != 0, "cover.beyond_cutoff");
        kani::cover!(idv != 0 && idv <= mx && r.is_err(), "cover.idle");
        kani::cover!(idv != 0 && idv <= mx && r.is_ok(), "cover.forgotten");
        std::mem::forget(r);
        std::mem::forget(sb);
        forget_inner(inner);
    }

    // DATA for a stream that is not in the store: the bytes still count against the CONNECTION window
    // and are credited back at once (C03), whatever else happens:
    //   id above our GOAWAY cut-off     => ignored, Ok
    //   previously used, now forgotten  => stream error STREAM_CLOSED (RST_STREAM), connection survives
    //   idle stream / stream 0          => connection error PROTOCOL_ERROR
    // A frame larger than the connection window is a connection FLOW_CONTROL_ERROR in the first two cases.
    // @harness id=inner_recv_data_unknown_stream props=C03,C09,C15,C08 kind=complete tier=quick fn=Inner::recv_data,Actions::may_have_forgotten_stream
    #[kani::proof]
    #[kani::unwind(2)]
    fn inner_recv_data_unknown_stream() {
        let peer = any_peer();
        let mut inner = mk_inner(any_counts(peer), any_recv(), any_send());
        let sb: SendBuffer<SymBuf> = mk_send_buffer();
        let (send_next, _) = send_ids(&inner.actions.send);
        let (recv_next, _, mx) = recv_ids(&inner.actions.recv);
        let (w0, a0, f0) = recv_raw(&inner.actions.recv);
        kani::assume(wf_recv_conn(w0, a0, f0));
        let idv: u32 = kani::any();
        kani::assume(idv >= 1 && idv <= u32::MAX >> 1); // Data::load rejects stream 0
        let id = StreamId::from(idv);
        if let (Some(n), false) = (if (peer == peer::Dyn::Server) == (idv % 2 == 0) { send_next } else { recv_next }, false) {
            kani::assume(n % 2 == idv % 2); // next ids keep their initiator's parity (I-ids)
        }
        let len: usize = kani::any();
        kani::assume(len <= (1 << 24) - 1);
        let pad: Option<u8> = if kani::any() { Some(kani::any()) } else { None };
        let sz = len as i64 + match pad { Some(p) => p as i64 + 1, None => 0 };
        let mut d = frame::Data::new(id, len_only_bytes(len));
        d.set_end_stream(kani::any());
        let d = d.vk_with_padding(pad);
        let r = inner.recv_data(peer, &sb, d);
        let (w1, a1, f1) = recv_raw(&inner.actions.recv);
        let idle = spec_idle(peer, idv, send_next, recv_next);
        let beyond = idv > mx;
        if !beyond && idle {
            assert!(matches!(r, Err(ref e) if is_goaway(e, Reason::PROTOCOL_ERROR)), "inner.recv_data.idle_stream_is_conn_protocol_error");
        } else if sz > w0 as i64 {
            assert!(matches!(r, Err(ref e) if is_goaway(e, Reason::FLOW_CONTROL_ERROR)), "inner.recv_data.conn_window_violation_is_conn_flow_control_error");
        } else {
            assert!(w1 as i64 == w0 as i64 - sz, "inner.recv_data.discarded_data_charged_to_connection_window");
            assert!(a1 == a0 && f1 == f0, "inner.recv_data.discarded_data_credited_back_exactly_once");
            if beyond {
                assert!(r.is_ok(), "inner.recv_data.beyond_goaway_cutoff_is_ignored");
            } else {
                let sc: u32 = Reason::STREAM_CLOSED.into();
                assert!(matches!(r, Err(ref e) if sig(e) == (0, idv, sc, 1, 0)), "inner.recv_data.forgotten_stream_is_stream_closed_reset");
            }
        }
        kani::cover!(beyond && r.is_ok() && pad.is_some(), "cover.beyond_cutoff_padded");
        kani::cover!(!beyond && !idle && matches!(r, Err(Error::Reset(..))), "cover.forgotten");
        kani::cover!(!beyond && idle, "cover.idle");
        std::mem::forget(r);
        std::mem::forget(sb);
        forget_inner(inner);
    }

    // WINDOW_UPDATE for a stream that is not in the store: idle => connection PROTOCOL_ERROR; otherwise
    // (a stream we closed: RFC 9113 6.9 says the peer may still send it) tolerated, nothing changes.
    // @harness id=inner_recv_window_update_unknown_stream props=C09,C02,C08 kind=complete tier=quick fn=Inner::recv_window_update
    #[kani::proof]
    #[kani::unwind(2)]
    fn inner_recv_window_update_unknown_stream() {
        let peer = any_peer();
        let mut inner = mk_inner(any_counts(peer), any_recv(), any_send());
        let sb: SendBuffer<SymBuf> = mk_send_buffer();
        let (send_next, _) = send_ids(&inner.actions.send);
        let (recv_next, _, _) = recv_ids(&inner.actions.recv);
        let idv: u32 = kani::any();
        kani::assume(idv >= 1 && idv <= u32::MAX >> 1); // stream 0 = connection window: prio_conn_window_update_arith
        let inc: u32 = kani::any();
        kani::assume(inc >= 1 && inc <= MAX_WINDOW_SIZE);
        let f = frame::WindowUpdate::new(StreamId::from(idv), inc);
        let r = inner.recv_window_update(&sb, f);
        if spec_idle(peer, idv, send_next, recv_next) {
            assert!(matches!(r, Err(ref e) if is_goaway(e, Reason::PROTOCOL_ERROR)), "inner.recv_window_update.idle_stream_is_conn_protocol_error");
        } else {
            assert!(r.is_ok(), "inner.recv_window_update.closed_stream_is_tolerated");
        }
        kani::cover!(r.is_err(), "cover.idle");
        kani::cover!(r.is_ok(), "cover.closed");
        std::mem::forget(r);
        std::mem::forget(sb);
        forget_inner(inner);
    }

    /// `server::Peer::convert_push_message` turns the application's http::Request into a PUSH_PROMISE frame (URI parsing,
    /// header validation: verified on its own by the C13 harnesses).  Here only the identifiers matter.
    fn stub_convert_push_message(stream_id: StreamId, promised_id: StreamId, request: http::Request<()>) -> Result<frame::PushPromise, UserError> {
        std::mem::forget(request); // dropping an http::Request (Uri = Bytes, HeaderMap, Extensions) is minutes of CBMC drop glue
        Ok(frame::PushPromise::new(stream_id, promised_id, frame::Pseudo::default(), http::HeaderMap::new()))
    }
    fn stub_check_headers_ok(_fields: &http::HeaderMap) -> Result<(), UserError> {
        Ok(())
    }

    // C02 (and C03): the stream a server creates for a PUSH_PROMISE gets the SEND window the peer advertised
    // (Send::init_window_sz) and the RECEIVE window this endpoint advertised (Recv::init_window_sz) — the two
    // values are independent symbolic numbers, so swapping them cannot go unnoticed — and it is reserved(local),
    // waiting for its PUSH_PROMISE, with the next local stream id.
    // @harness id=streamref_send_push_promise_new_stream props=C02,C03,C04 kind=complete tier=attempt timeout=2400 fn=StreamRef::send_push_promise
    #[kani::proof]
    #[kani::unwind(3)]
    #[kani::stub(crate::server::Peer::convert_push_message, stub_convert_push_message)]
    #[kani::stub(crate::proto::streams::send::Send::check_headers, stub_check_headers_ok)]
    fn streamref_send_push_promise_new_stream() {
        use crate::proto::streams::flow_control::verif_kani::raw;
        use crate::proto::streams::store::verif_kani::{peek, put};
        use crate::proto::streams::state::verif_kani::state_shape;
        // Everything the function does not look at is concrete (a fresh server connection that has accepted stream 1);
        // the two initial windows are independent symbolic values, the next local id any even id or exhausted.
        let (send_init, recv_init): (u32, u32) = (kani::any(), kani::any());
        kani::assume(send_init <= MAX_WINDOW_SIZE && recv_init <= MAX_WINDOW_SIZE);
        let next: u32 = kani::any();
        kani::assume(next >= 2 && next % 2 == 0 && next <= u32::MAX >> 1);
        // (ids exhausted => UserError::OverflowedStreamId before anything is created: Send::ensure_next_stream_id, unit v_send)
        let next_id: Result<StreamId, crate::frame::StreamIdOverflow> = Ok(StreamId::from(next));
        let next0 = next_id.ok().map(u32::from);
        let send = crate::proto::streams::send::verif_kani::mk_send(
            crate::proto::streams::prioritize::verif_kani::mk_prioritize(65_535, 65_535, 1 << 20), next_id, StreamId::MAX, send_init);
        let mut recv = crate::proto::streams::recv::verif_kani::mk_recv(65_535, 65_535, 0, Ok(StreamId::from(3)));
        crate::proto::streams::recv::verif_kani::recv_set_init_window(&mut recv, recv_init);
        let mut inner = mk_inner(any_counts(peer::Dyn::Server), recv, send);
        // the request stream the push is associated with: the request is complete, the response still open
        let mut parent = Stream::new(StreamId::from(1), send_init, recv_init);
        parent.state = state_shape(5, 0);
        let pkey = put(&mut inner.store, parent);
        let shared = Arc::new(Mutex::new(inner));
        let mut sr: StreamRef<SymBuf> = StreamRef {
            opaque: OpaqueStreamRef { inner: shared.clone(), key: pkey },
            send_buffer: Arc::new(mk_send_buffer()),
        };
        let r = sr.send_push_promise(http::Request::new(()));
        if let Ok(ref child) = r {
            let me = match shared.lock() { Ok(g) => g, Err(e) => e.into_inner() };
            let c = peek(&me.store, child.opaque.key);
            assert!(matches!(c, Some(s) if raw(&s.send_flow) == (send_init as i32, 0)),
                "streams.send_push_promise.promised_stream_send_window_is_the_peers_initial_window");
            assert!(matches!(c, Some(s) if raw(&s.recv_flow) == (recv_init as i32, recv_init as i32)),
                "streams.send_push_promise.promised_stream_recv_window_is_our_initial_window");
            assert!(matches!(c, Some(s) if s.is_pending_push && s.ref_count == 1 && Some(u32::from(s.id)) == next0 && u32::from(s.id) % 2 == 0),
                "streams.send_push_promise.promised_stream_has_the_next_local_id_and_waits_for_its_push_promise");
            std::mem::forget(me);
        }
        kani::cover!(r.is_ok() && send_init != recv_init, "cover.pushed_with_different_windows");
        std::mem::forget(r);
        std::mem::forget(sr);
        std::mem::forget(shared);
    }
}
