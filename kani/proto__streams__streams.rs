//! Contracts for src/proto/streams/streams.rs: the dispatch layer (`Inner::recv_*`, `Actions::*`) —
//! what happens to frames for streams the endpoint does not (or no longer) know: RFC 9113 5.1 "idle" vs
//! "closed", the GOAWAY cut-off (C15), the races the property C09 says must be tolerated, and the
//! connection-window accounting of discarded DATA (C03).
#![allow(dead_code, unused_imports)]
use super::*;

// ---- connlevel helpers begin
/// What SETTINGS change in the streams layer, as far as it is observable without a stream:
/// (max_send_streams, max_recv_streams, recv initial window, send initial window,
///  extended CONNECT allowed on the send side, number of streams in the store)
pub(crate) type StreamsSettingsSnap = (usize, usize, u32, u32, bool, bool);

impl<B, P> Streams<B, P>
where
    P: Peer,
{
    pub(crate) fn vk_settings_snap(&self) -> StreamsSettingsSnap {
        let me = match self.inner.lock() {
            Ok(g) => g,
            Err(e) => e.into_inner(),
        };
        (
            me.counts.max_send_streams(),
            me.counts.max_recv_streams(),
            me.actions.recv.init_window_sz(),
            me.actions.send.init_window_sz(),
            me.actions.send.is_extended_connect_protocol_enabled(),
            me.counts.has_streams(),
        )
    }
}
// ---- connlevel helpers end


pub(crate) fn mk_inner(counts: Counts, recv: Recv, send: Send) -> Inner {
    Inner {
        counts,
        actions: Actions { recv, send, task: None, conn_error: None },
        store: Store::new(),
        refs: 1,
    }
}
pub(crate) fn mk_send_buffer<B>() -> SendBuffer<B> {
    SendBuffer::new()
}
pub(crate) fn forget_inner(i: Inner) {
    std::mem::forget(i);
}

#[cfg(kani)]
mod proofs {
    use super::*;
    use crate::proto::streams::counts::verif_kani::{any_counts, any_peer, forget_counts, raw_counts};
    use crate::proto::streams::recv::verif_kani::{any_recv, recv_ids, recv_raw, wf_recv_conn};
    use crate::proto::streams::send::verif_kani::{any_send, send_ids};
    use crate::verif_kani::{any_stream_id, len_only_bytes, sig, SymBuf};
    use crate::proto::MAX_WINDOW_SIZE;

    fn is_goaway(e: &Error, reason: Reason) -> bool {
        let code: u32 = reason.into();
        matches!(sig(e), (1, _, c, 1, _) if c == code)
    }

    /// Idle per RFC 9113 5.1.1: an id not yet used by its initiator (>= the next expected id of that side).
    fn spec_idle(peer: peer::Dyn, idv: u32, send_next: Option<u32>, recv_next: Option<u32>) -> bool {
        let local = (peer == peer::Dyn::Server) == (idv % 2 == 0);
        let next = if local { send_next } else { recv_next };
        match next {
            Some(n) => idv >= n,
            None => false,
        }
    }

    // RST_STREAM for a stream that is not in the store (empty store):
    //   stream 0                       => connection error PROTOCOL_ERROR
    //   id above our GOAWAY cut-off     => ignored, Ok (a peer racing with our GOAWAY is legal: C09/C15)
    //   idle stream (never opened)      => connection error PROTOCOL_ERROR (RFC 9113 6.4)
    //   previously used, now forgotten  => tolerated, Ok
    // and nothing about the connection changes in any case.
    // @harness id=inner_recv_reset_unknown_stream props=C09,C15,C17,C08 kind=complete tier=quick fn=Inner::recv_reset,Actions::ensure_not_idle
    #[kani::proof]
    #[kani::unwind(2)]
    fn inner_recv_reset_unknown_stream() {
        let peer = any_peer();
        let mut inner = mk_inner(any_counts(peer), any_recv(), any_send());
        let sb: SendBuffer<SymBuf> = mk_send_buffer();
        let (send_next, _) = send_ids(&inner.actions.send);
        let (recv_next, lp0, mx) = recv_ids(&inner.actions.recv);
        let c0 = raw_counts(&inner.counts);
        let id = any_stream_id();
        let idv: u32 = id.into();
        let code: u32 = kani::any();
        let r = inner.recv_reset(&sb, frame::Reset::new(id, Reason::from(code)));
        if idv == 0 {
            assert!(matches!(r, Err(ref e) if is_goaway(e, Reason::PROTOCOL_ERROR)), "inner.recv_reset.stream_zero_is_conn_protocol_error");
        } else if idv > mx {
            assert!(r.is_ok(), "inner.recv_reset.beyond_goaway_cutoff_is_ignored");
        } else if spec_idle(peer, idv, send_next, recv_next) {
            assert!(matches!(r, Err(ref e) if is_goaway(e, Reason::PROTOCOL_ERROR)), "inner.recv_reset.idle_stream_is_conn_protocol_error");
        } else {
            assert!(r.is_ok(), "inner.recv_reset.forgotten_stream_is_tolerated");
        }
        assert!(raw_counts(&inner.counts) == c0 && recv_ids(&inner.actions.recv) == (recv_next, lp0, mx), "inner.recv_reset.unknown_stream_changes_nothing");
        kani::cover!(idv > mx && idv != 0, "cover.beyond_cutoff");
        kani::cover!(idv != 0 && idv <= mx && r.is_err(), "cover.idle");
        kani::cover!(idv != 0 && idv <= mx && r.is_ok(), "cover.forgotten");
        std::mem::forget(r);
        std::mem::forget(sb);
        forget_inner(inner);
    }

    // DATA for a stream that is not in the store: the bytes still count against the CONNECTION window
    // and are credited back at once (C03), whatever else happens:
    //   id above our GOAWAY cut-off     => ignored, Ok
    //   previously used, now forgotten  => stream error STREAM_CLOSED (RST_STREAM), connection survives
    //   idle stream / stream 0          => connection error PROTOCOL_ERROR
    // A frame larger than the connection window is a connection FLOW_CONTROL_ERROR in the first two cases.
    // @harness id=inner_recv_data_unknown_stream props=C03,C09,C15,C08 kind=complete tier=quick fn=Inner::recv_data,Actions::may_have_forgotten_stream
    #[kani::proof]
    #[kani::unwind(2)]
    fn inner_recv_data_unknown_stream() {
        let peer = any_peer();
        let mut inner = mk_inner(any_counts(peer), any_recv(), any_send());
        let sb: SendBuffer<SymBuf> = mk_send_buffer();
        let (send_next, _) = send_ids(&inner.actions.send);
        let (recv_next, _, mx) = recv_ids(&inner.actions.recv);
        let (w0, a0, f0) = recv_raw(&inner.actions.recv);
        kani::assume(wf_recv_conn(w0, a0, f0));
        let idv: u32 = kani::any();
        kani::assume(idv >= 1 && idv <= u32::MAX >> 1); // Data::load rejects stream 0
        let id = StreamId::from(idv);
        if let (Some(n), false) = (if (peer == peer::Dyn::Server) == (idv % 2 == 0) { send_next } else { recv_next }, false) {
            kani::assume(n % 2 == idv % 2); // next ids keep their initiator's parity (I-ids)
        }
        let len: usize = kani::any();
        kani::assume(len <= (1 << 24) - 1);
        let pad: Option<u8> = if kani::any() { Some(kani::any()) } else { None };
        let sz = len as i64 + match pad { Some(p) => p as i64 + 1, None => 0 };
        let mut d = frame::Data::new(id, len_only_bytes(len));
        d.set_end_stream(kani::any());
        let d = d.vk_with_padding(pad);
        let r = inner.recv_data(peer, &sb, d);
        let (w1, a1, f1) = recv_raw(&inner.actions.recv);
        let idle = spec_idle(peer, idv, send_next, recv_next);
        let beyond = idv > mx;
        if !beyond && idle {
            assert!(matches!(r, Err(ref e) if is_goaway(e, Reason::PROTOCOL_ERROR)), "inner.recv_data.idle_stream_is_conn_protocol_error");
        } else if sz > w0 as i64 {
            assert!(matches!(r, Err(ref e) if is_goaway(e, Reason::FLOW_CONTROL_ERROR)), "inner.recv_data.conn_window_violation_is_conn_flow_control_error");
        } else {
            assert!(w1 as i64 == w0 as i64 - sz, "inner.recv_data.discarded_data_charged_to_connection_window");
            assert!(a1 == a0 && f1 == f0, "inner.recv_data.discarded_data_credited_back_exactly_once");
            if beyond {
                assert!(r.is_ok(), "inner.recv_data.beyond_goaway_cutoff_is_ignored");
            } else {
                let sc: u32 = Reason::STREAM_CLOSED.into();
                assert!(matches!(r, Err(ref e) if sig(e) == (0, idv, sc, 1, 0)), "inner.recv_data.forgotten_stream_is_stream_closed_reset");
            }
        }
        kani::cover!(beyond && r.is_ok() && pad.is_some(), "cover.beyond_cutoff_padded");
        kani::cover!(!beyond && !idle && matches!(r, Err(Error::Reset(..))), "cover.forgotten");
        kani::cover!(!beyond && idle, "cover.idle");
        std::mem::forget(r);
        std::mem::forget(sb);
        forget_inner(inner);
    }

    // WINDOW_UPDATE for a stream that is not in the store: idle => connection PROTOCOL_ERROR; otherwise
    // (a stream we closed: RFC 9113 6.9 says the peer may still send it) tolerated, nothing changes.
    // @harness id=inner_recv_window_update_unknown_stream props=C09,C02,C08 kind=complete tier=quick fn=Inner::recv_window_update
    #[kani::proof]
    #[kani::unwind(2)]
    fn inner_recv_window_update_unknown_stream() {
        let peer = any_peer();
        let mut inner = mk_inner(any_counts(peer), any_recv(), any_send());
        let sb: SendBuffer<SymBuf> = mk_send_buffer();
        let (send_next, _) = send_ids(&inner.actions.send);
        let (recv_next, _, _) = recv_ids(&inner.actions.recv);
        let idv: u32 = kani::any();
        kani::assume(idv >= 1 && idv <= u32::MAX >> 1); // stream 0 = connection window: prio_conn_window_update_arith
        let inc: u32 = kani::any();
        kani::assume(inc >= 1 && inc <= MAX_WINDOW_SIZE);
        let f = frame::WindowUpdate::new(StreamId::from(idv), inc);
        let r = inner.recv_window_update(&sb, f);
        if spec_idle(peer, idv, send_next, recv_next) {
            assert!(matches!(r, Err(ref e) if is_goaway(e, Reason::PROTOCOL_ERROR)), "inner.recv_window_update.idle_stream_is_conn_protocol_error");
        } else {
            assert!(r.is_ok(), "inner.recv_window_update.closed_stream_is_tolerated");
        }
        kani::cover!(r.is_err(), "cover.idle");
        kani::cover!(r.is_ok(), "cover.closed");
        std::mem::forget(r);
        std::mem::forget(sb);
        forget_inner(inner);
    }
}
