//! Contracts for src/frame/window_update.rs (RFC 9113 §6.9).
//!
//! C12: load(encode(w)) == w for every stream id and every legal increment 1..=2^31-1; the frame is
//!      9 + 4 octets: length 4, type 8, no flags, the stream id, the increment big-endian with R = 0.
//! C09: `load` fails IF AND ONLY IF length != 4 (FRAME_SIZE_ERROR) or the 31-bit increment is 0
//!      (PROTOCOL_ERROR); the reserved bit of the increment and all flag bits are ignored; both stream 0
//!      (connection window) and stream != 0 are legal.
//! C02/C03: a loaded increment is always in 1..=2^31-1 (precondition I-win of the flow-control contracts).
//! C08: no input panics.
#![allow(dead_code, unused_imports)]
use super::*;

pub(crate) fn mk_window_update(stream_id: StreamId, size_increment: u32) -> WindowUpdate {
    WindowUpdate {
        stream_id,
        size_increment,
    }
}

#[cfg(kani)]
mod proofs {
    use super::*;
    use crate::frame::verif_kani::{
        any_head_of, any_payload, be32, err_class, spec_head_fields, E_SIZE, E_WINDOW_UPDATE_VALUE, MIN_MAX_FRAME_SIZE,
        T_WINDOW_UPDATE, WIRE_MAX,
    };
    use crate::verif_kani::any_stream_id;
    use bytes::BytesMut;

    const MAXW: u32 = (1u32 << 31) - 1;

    // @harness id=window_update_roundtrip props=C12,C08,C02,C03 kind=complete tier=quick fn=WindowUpdate::encode,WindowUpdate::load,WindowUpdate::new,WindowUpdate::stream_id,WindowUpdate::size_increment
    #[kani::proof]
    fn window_update_roundtrip() {
        let id = any_stream_id();
        let inc: u32 = kani::any();
        // requires: a legal increment.  Call sites: Recv::send_{connection,stream}_window_update pass
        // FlowControl::unclaimed_capacity() (contract fc.unclaimed.increment_legal_on_the_wire: 1..=2^31-1).
        kani::assume(inc >= 1 && inc <= MAXW);
        let w = WindowUpdate::new(id, inc);
        assert!(w.stream_id() == id && w.size_increment() == inc, "window_update.new.fields");

        let mut dst = BytesMut::with_capacity(32);
        w.encode(&mut dst);

        assert!(dst.len() == 9 + 4, "window_update.encode.writes_exactly_13_octets");
        let (len, ty, fl, r, wid) = spec_head_fields(&dst[..9]);
        assert!(len == 4 && len == dst.len() - 9, "window_update.encode.length_field_is_payload_len");
        assert!(len <= MIN_MAX_FRAME_SIZE, "window_update.encode.within_every_peers_max_frame_size");
        assert!(ty == T_WINDOW_UPDATE, "window_update.encode.type_is_8");
        assert!(fl == 0, "window_update.encode.no_flags");
        assert!(!r && wid == u32::from(id), "window_update.encode.stream_id");
        assert!(be32(&dst[..], 9) == inc, "window_update.encode.increment_big_endian_reserved_bit_zero");

        let head = Head::parse(&dst[..9]);
        assert!(head.kind() == Kind::WindowUpdate, "window_update.roundtrip.dispatched_as_window_update");
        let back = WindowUpdate::load(head, &dst[9..]);
        assert!(back == Ok(w), "window_update.roundtrip.load_of_encode_is_identity");
        if let Ok(b) = back {
            assert!(b.stream_id() == id && b.size_increment() == inc, "window_update.roundtrip.every_field");
        }
        kani::cover!(id.is_zero() && inc == MAXW, "cover.connection_max_increment");
        kani::cover!(!id.is_zero() && inc == 1, "cover.stream_min_increment");
        std::mem::forget(dst);
    }

    // @harness id=window_update_load_validation props=C09,C08,C12,C02 kind=complete tier=quick fn=WindowUpdate::load
    #[kani::proof]
    fn window_update_load_validation() {
        // requires: head.kind() == WindowUpdate (dispatch in decode_frame).  All flags, all stream ids,
        // all payload lengths, all contents.
        let head = any_head_of(Kind::WindowUpdate);
        let buf = any_payload(WIRE_MAX);
        let n = buf.len();

        let r = WindowUpdate::load(head, &buf[..]);

        let bad_len = n != 4;
        let inc31 = if n >= 4 { be32(&buf[..], 0) & 0x7fff_ffff } else { 0 };
        let zero_inc = !bad_len && inc31 == 0;
        assert!(r.is_err() == (bad_len || zero_inc), "window_update.load.err_iff_rfc_error");
        match &r {
            Ok(w) => {
                assert!(w.stream_id() == head.stream_id(), "window_update.load.stream_id_from_head");
                assert!(w.size_increment() == inc31, "window_update.load.increment_low_31_bits_reserved_ignored");
                assert!(w.size_increment() >= 1 && w.size_increment() <= MAXW, "window_update.load.increment_in_1_to_2_31_minus_1");
            }
            Err(e) => {
                let c = err_class(e);
                assert!(c == if bad_len { E_SIZE } else { E_WINDOW_UPDATE_VALUE }, "window_update.load.err_class_matches_cause");
                assert!(!bad_len || *e == Error::BadFrameSize, "window_update.load.len_not_4_is_bad_frame_size");
                assert!(bad_len || *e == Error::InvalidWindowUpdateValue, "window_update.load.zero_is_invalid_window_update_value");
            }
        }
        kani::cover!(r.is_ok() && head.stream_id().is_zero() && head.flag() == 0xff, "cover.ok_connection_flags_ignored");
        kani::cover!(r.is_ok() && !head.stream_id().is_zero() && buf[0] & 0x80 != 0, "cover.ok_stream_reserved_bit_set");
        kani::cover!(r.is_err() && n == 4 && buf[0] == 0x80, "cover.zero_with_reserved_bit");
        kani::cover!(r.is_err() && n == 5, "cover.long");
        std::mem::forget(buf);
    }
}
