//! Shared harness helpers for the connection-level state machines (proto::go_away, proto::ping_pong,
//! proto::settings, proto::connection).  Visible to every `proto::*::verif_kani` as
//! `crate::proto::verif_kani::*`.  No contracts in this file.
//!
//! `SymIo` is the transport stand-in: it never yields bytes to read, and a write is accepted
//! completely, answered with `Pending`, or fails with BrokenPipe, chosen by the (symbolic) `mode`.  It counts what it
//! was handed so a harness can state "nothing reached the wire" / "everything was flushed".
#![allow(dead_code, unused_imports)]
use super::*;

// ---- connlevel helpers begin
/// How the transport answers `poll_write` / `poll_flush`.
#[derive(Debug, Clone, Copy, PartialEq, Eq)]
pub(crate) enum IoMode {
    /// the whole slice is accepted
    Accept,
    /// `Poll::Pending` (socket buffer full)
    Pending,
    /// `Err(BrokenPipe)`
    Fail,
}

#[derive(Debug)]
pub(crate) struct SymIo {
    pub mode: IoMode,
    /// Bytes accepted by `poll_write` so far.
    pub written: usize,
    /// Number of `poll_write` calls.
    pub writes: usize,
    /// Number of `poll_shutdown` calls, and how many bytes had been accepted when the first one came.
    pub shutdowns: usize,
    pub written_at_shutdown: usize,
}

impl SymIo {
    pub(crate) fn new(mode: IoMode) -> SymIo {
        SymIo { mode, written: 0, writes: 0, shutdowns: 0, written_at_shutdown: 0 }
    }
}

#[cfg(kani)]
pub(crate) fn any_io_mode() -> IoMode {
    let k: u8 = kani::any();
    match k % 3 {
        0 => IoMode::Accept,
        1 => IoMode::Pending,
        _ => IoMode::Fail,
    }
}

impl tokio::io::AsyncRead for SymIo {
    fn poll_read(
        self: std::pin::Pin<&mut Self>,
        _: &mut std::task::Context<'_>,
        _: &mut tokio::io::ReadBuf<'_>,
    ) -> std::task::Poll<std::io::Result<()>> {
        std::task::Poll::Pending
    }
}

impl AsyncWrite for SymIo {
    fn poll_write(
        mut self: std::pin::Pin<&mut Self>,
        _: &mut std::task::Context<'_>,
        buf: &[u8],
    ) -> std::task::Poll<std::io::Result<usize>> {
        self.writes += 1;
        match self.mode {
            IoMode::Accept => {
                self.written += buf.len();
                std::task::Poll::Ready(Ok(buf.len()))
            }
            IoMode::Pending => std::task::Poll::Pending,
            IoMode::Fail => std::task::Poll::Ready(Err(std::io::ErrorKind::BrokenPipe.into())),
        }
    }
    fn poll_flush(self: std::pin::Pin<&mut Self>, _: &mut std::task::Context<'_>) -> std::task::Poll<std::io::Result<()>> {
        match self.mode {
            IoMode::Accept => std::task::Poll::Ready(Ok(())),
            IoMode::Pending => std::task::Poll::Pending,
            IoMode::Fail => std::task::Poll::Ready(Err(std::io::ErrorKind::BrokenPipe.into())),
        }
    }
    fn poll_shutdown(mut self: std::pin::Pin<&mut Self>, _: &mut std::task::Context<'_>) -> std::task::Poll<std::io::Result<()>> {
        if self.shutdowns == 0 {
            self.written_at_shutdown = self.written;
        }
        self.shutdowns += 1;
        std::task::Poll::Ready(Ok(()))
    }
}

/// Size of the stand-in write buffer used by the harnesses (the real one is 16 KiB; only the
/// comparison `capacity - len >= min_buffer_capacity` matters to `poll_ready`).
pub(crate) const VK_WBUF_CAP: usize = 1200;

/// A real `Codec` (real `FramedWrite`, `FramedRead`, hpack tables) over `SymIo` whose write buffer has
/// `VK_WBUF_CAP` bytes of capacity and already holds `fill` bytes (0xEE) of earlier frames.
/// `has_capacity()` <=> `VK_WBUF_CAP - fill >= min_buffer_capacity` (= 1024 + 9 for non-vectored I/O).
pub(crate) fn mk_codec<B: Buf>(mode: IoMode, fill: usize) -> Codec<SymIo, B> {
    let mut c = Codec::new(SymIo::new(mode));
    c.vk_set_write_buf(VK_WBUF_CAP, fill, 0xEE);
    c
}

/// Everything observable about a codec except the buffered bytes themselves, for frame conditions
/// ("nothing else changed").
#[derive(Debug, Clone, Copy, PartialEq, Eq)]
pub(crate) struct CodecSnap {
    pub buffered: usize,
    pub has_next: bool,
    pub written: usize,
    pub max_send_frame: usize,
    pub max_recv_frame: usize,
    pub max_recv_header_list: usize,
    pub send_table_update: Option<(usize, usize)>,
    pub recv_table_update: Option<usize>,
}

impl CodecSnap {
    /// The negotiated-settings part (everything a control frame must not disturb).
    pub(crate) fn settings(&self) -> (usize, usize, usize, Option<(usize, usize)>, Option<usize>) {
        (self.max_send_frame, self.max_recv_frame, self.max_recv_header_list, self.send_table_update, self.recv_table_update)
    }
}

pub(crate) fn snap<B>(c: &Codec<SymIo, B>) -> CodecSnap {
    CodecSnap {
        buffered: c.vk_buffered_len(),
        has_next: c.vk_has_next(),
        written: c.vk_io().written,
        max_send_frame: c.max_send_frame_size(),
        max_recv_frame: c.vk_max_recv_frame_size(),
        max_recv_header_list: c.vk_max_recv_header_list_size(),
        send_table_update: c.vk_send_table_size_update(),
        recv_table_update: c.vk_recv_table_size_update(),
    }
}

/// `poll_ready` will answer Ready without touching the I/O object.
pub(crate) fn has_room<B>(c: &Codec<SymIo, B>) -> bool {
    !c.vk_has_next() && VK_WBUF_CAP - c.vk_buffered_len() >= c.vk_min_buffer_capacity()
}

/// RFC 9113 section 4.1 frame header: (payload length, type, flags, stream id incl. reserved bit).
pub(crate) fn head9(b: &[u8]) -> (usize, u8, u8, u32) {
    (
        ((b[0] as usize) << 16) | ((b[1] as usize) << 8) | b[2] as usize,
        b[3],
        b[4],
        u32::from_be_bytes([b[5], b[6], b[7], b[8]]),
    )
}

pub(crate) fn be32(b: &[u8]) -> u32 {
    u32::from_be_bytes([b[0], b[1], b[2], b[3]])
}

/// Stand-in for `impl From<io::Error> for proto::Error` (src/proto/error.rs) used with `#[kani::stub]`
/// by harnesses that reach it.  The real body is `Error::Io(src.kind(), src.get_ref().map(|e|
/// e.to_string()))`; for an `io::Error` built from a bare `ErrorKind` — the only kind the code under
/// contract creates (`broken_pipe()`, `WriteZero`) or `SymIo` returns — `get_ref()` is `None`, so the
/// result is `Io(kind, None)`.  CBMC cannot prune the custom-error branch of the bit-packed repr and
/// would drag `dyn Display` / core::fmt into the formula (endless symex).  ASSUMPTION listed with the
/// harnesses: the io::Error has no custom payload.
pub(crate) fn io_error_to_proto_error_stub(src: std::io::Error) -> Error {
    let kind = src.kind();
    std::mem::forget(src);
    Error::Io(kind, None)
}
// ---- connlevel helpers end
